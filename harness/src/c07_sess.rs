//! C07 helper: one client, several exchanges on one connection, damage at
//! every PDU position of the whole conversation.
//!
//! `c07_conn.rs` judges one response. What a router reads over the life of a
//! connection has more positions than that: after a completed exchange the
//! client *idles* until a Serial Notify arrives, then asks again; a serial
//! query may be answered by Cache Reset, after which the client asks with a
//! reset query; a fresh client may be told the cache's version by an Error
//! Report first. Every one of these positions has its own reader in the
//! client (the notify wait, the two first-reply readers, the payload
//! sequence), and only a transcript in which the earlier exchanges complete
//! reaches the later ones.
//!
//! Workload: protocol-valid transcripts of 2..4 exchanges laid out by the
//! independent encoder (`c07_io::Pdu`), versions 0..2, a client with or
//! without initial state, asking with the transcript's version or a higher
//! one; each exchange is a data response to the serial / reset query, or Cache
//! Reset followed by a full response; an optional "unsupported protocol
//! version" Error Report in front of the first response. One fault per run,
//! at every PDU of the transcript:
//!
//! * version / type / length octets overwritten,
//! * the PDU resized coherently (cut or padded to the announced length),
//! * the PDU replaced by each PDU type laid out with the session's version,
//! * each of these PDUs inserted in front of it,
//! * the stream ending after every octet count.
//!
//! The client is driven by hand (counting waker, poll budget, reads after
//! end-of-stream) through `Client::step` or `Client::update` + `apply`, one
//! call per exchange, up to the call that reads the damaged position.
//!
//! Oracle (statement: a header announcing a wrong type, length or version, or
//! a stream that ends early, ends the read with an error; no panic, no
//! spin): a grammar of the router side of RFC 6810 / 8210 says per reading
//! position which type octets are possible there, per type which lengths
//! exist, and the session's version is the one every other PDU carries. The
//! call that reads a header outside of that has to return `Err` without
//! having taken more than a bounded number of octets. Everything else is
//! recorded.
//!
//! This file is a child module of `c07_conn` (`#[path]`), whose mock socket
//! and hand driver it uses.

use super::{budget_for, drive_counted, gen_response, Driven, Peer, Shared, Tgt};
use crate::c07_gen::{b16, b32, random_script};
use crate::c07_io::{hex_capped, parse_header, Chunking, Hdr, Pdu, EOF_READS_TOLERATED};
use crate::core::{catch, hex, panic_location, Ctx, Rng, Stage, Tier};
use rpki::rtr::client::Client;
use rpki::rtr::state::{Serial, State};
use serde_json::{json, Value};
use std::collections::HashSet;
use std::io;
use std::sync::{Arc, Mutex};

//------------ positions -------------------------------------------------------

/// What a PDU is in the transcript.
#[derive(Clone, Copy, Debug, PartialEq, Eq)]
enum Role {
    /// Error Report "unsupported protocol version" in front of the first response
    VersionError,
    Notify,
    CacheReset,
    CacheResponse,
    Payload,
    EndOfData,
}

impl Role {
    fn name(self) -> &'static str {
        match self {
            Role::VersionError => "version-error-report",
            Role::Notify => "serial-notify",
            Role::CacheReset => "cache-reset",
            Role::CacheResponse => "cache-response",
            Role::Payload => "payload",
            Role::EndOfData => "end-of-data",
        }
    }
}

/// Which reading position of the router the PDU arrives at.
#[derive(Clone, Copy, Debug, PartialEq, Eq)]
enum Reader {
    /// between two exchanges: waiting for a Serial Notify
    Idle,
    /// first PDU after a serial query
    FirstReplySerial,
    /// first PDU after a reset query
    FirstReplyReset,
    /// after the Cache Response, up to and including End of Data
    PayloadSeq,
}

impl Reader {
    fn name(self) -> &'static str {
        match self {
            Reader::Idle => "idle",
            Reader::FirstReplySerial => "first-reply-to-serial-query",
            Reader::FirstReplyReset => "first-reply-to-reset-query",
            Reader::PayloadSeq => "payload-sequence",
        }
    }
}

#[derive(Clone, Copy, Debug, PartialEq, Eq)]
enum TypeAt {
    /// a PDU of this type is what the router reads on at this position
    Proceeds,
    /// possible at this position, outcome not fixed by the statement (Error
    /// Report in answer to a query, a Serial Notify during a response, Cache
    /// Reset in answer to a reset query)
    Open,
    /// no cache sends this type at this position
    Wrong,
}

/// The router side of RFC 6810 / RFC 8210 (section 8, "Protocol Sequences").
fn type_at(reader: Reader, t: u8) -> TypeAt {
    match reader {
        Reader::Idle => match t {
            0 => TypeAt::Proceeds,
            _ => TypeAt::Wrong,
        },
        Reader::FirstReplySerial => match t {
            3 | 8 => TypeAt::Proceeds,
            0 | 10 => TypeAt::Open,
            _ => TypeAt::Wrong,
        },
        Reader::FirstReplyReset => match t {
            3 => TypeAt::Proceeds,
            0 | 8 | 10 => TypeAt::Open,
            _ => TypeAt::Wrong,
        },
        Reader::PayloadSeq => match t {
            4 | 6 | 7 | 9 | 11 => TypeAt::Proceeds,
            0 => TypeAt::Open,
            _ => TypeAt::Wrong,
        },
    }
}

/// Can a PDU of type `t` have this length? (`true` where the documents leave it open.)
fn length_possible(t: u8, version: u8, len: u32) -> bool {
    match t {
        0 | 1 => len == 12,
        2 | 3 | 8 => len == 8,
        4 => len == 20,
        6 => len == 32,
        7 => match version {
            0 => len == 12,
            1 | 2 => len == 24,
            _ => true,
        },
        9 => len >= 32,
        11 => len >= 12 && (len - 12) % 4 == 0,
        _ => true,
    }
}

/// The statement obliges an error for a header like this at this position.
fn header_must_fail(reader: Reader, session_version: u8, h: Hdr) -> Option<&'static str> {
    match type_at(reader, h.pdu) {
        TypeAt::Wrong => Some("type-wrong-for-position"),
        TypeAt::Open => None,
        TypeAt::Proceeds => {
            if !length_possible(h.pdu, h.version, h.length) {
                Some("length-impossible-for-type")
            } else if h.version != session_version {
                Some("version-differs-from-session")
            } else {
                None
            }
        }
    }
}

//------------ transcripts -------------------------------------------------------

struct Slot {
    role: Role,
    reader: Reader,
    /// exchange number (0-based) = number of the client call that reads it
    xchg: usize,
    pdu: Pdu,
    start: usize,
    end: usize,
}

#[derive(Clone, Copy, Debug, PartialEq, Eq)]
enum EntryMode {
    Step,
    UpdateApply,
}

impl EntryMode {
    fn name(self) -> &'static str {
        match self {
            EntryMode::Step => "step",
            EntryMode::UpdateApply => "update+apply",
        }
    }
}

struct Session {
    v: u8,
    client_version: u8,
    init_state: Option<(u16, u32)>,
    entry: EntryMode,
    exchanges: usize,
    fallbacks: usize,
    negotiated_by_error: bool,
    session_id: u16,
    slots: Vec<Slot>,
    bytes: Vec<u8>,
    /// end offset of every exchange
    xchg_end: Vec<usize>,
}

fn gen_session(r: &mut Rng, v: u8, exchanges: usize, entry: EntryMode, max_payload: u64) -> Session {
    let session_id = b16(r);
    let s0 = b32(r);
    let client_version = r.range(v as u64, 2) as u8;
    let init_state = if r.bool() { Some((session_id, s0)) } else { None };
    let mut has_state = init_state.is_some();
    let mut serial = s0;
    let mut pdus: Vec<(Role, Reader, usize, Pdu)> = Vec::new();
    let mut fallbacks = 0;
    let mut negotiated_by_error = false;
    for x in 0..exchanges {
        if x > 0 {
            pdus.push((Role::Notify, Reader::Idle, x, Pdu::SerialNotify { v, session: session_id, serial: serial.wrapping_add(r.range(1, 3) as u32) }));
        }
        let first_reply = |has_state: bool| if has_state { Reader::FirstReplySerial } else { Reader::FirstReplyReset };
        if x == 0 && client_version > v && r.below(3) == 0 {
            // the cache does not speak the version asked for: Error Report, code 4, carrying its own version and the query
            let query = if has_state { Pdu::SerialQuery { v: client_version, session: session_id, serial: s0 } } else { Pdu::ResetQuery { v: client_version } };
            let text_len = *r.pick(&[0usize, 5, 23]);
            let mut text = r.bytes(text_len);
            for b in text.iter_mut() {
                *b = b' ' + (*b % 95);
            }
            pdus.push((Role::VersionError, first_reply(has_state), x, Pdu::Error { v, code: 4, pdu: if r.bool() { query.encode() } else { Vec::new() }, text }));
            negotiated_by_error = true;
        }
        if has_state && r.below(3) == 0 {
            pdus.push((Role::CacheReset, Reader::FirstReplySerial, x, Pdu::CacheReset { v }));
            has_state = false;
            fallbacks += 1;
        }
        serial = serial.wrapping_add(r.range(1, 3) as u32);
        let resp = gen_response(r, v, has_state, session_id, serial, max_payload);
        let n = resp.len();
        for (i, p) in resp.into_iter().enumerate() {
            let (role, reader) = if i == 0 {
                (Role::CacheResponse, first_reply(has_state))
            } else if i + 1 == n {
                (Role::EndOfData, Reader::PayloadSeq)
            } else {
                (Role::Payload, Reader::PayloadSeq)
            };
            pdus.push((role, reader, x, p));
        }
        has_state = true;
    }
    let mut bytes = Vec::new();
    let mut slots = Vec::new();
    let mut xchg_end = vec![0usize; exchanges];
    for (role, reader, xchg, pdu) in pdus {
        let start = bytes.len();
        bytes.extend_from_slice(&pdu.encode());
        let end = bytes.len();
        xchg_end[xchg] = end;
        slots.push(Slot { role, reader, xchg, pdu, start, end });
    }
    Session { v, client_version, init_state, entry, exchanges, fallbacks, negotiated_by_error, session_id, slots, bytes, xchg_end }
}

/// One PDU of every type the library knows, laid out with the session's version.
fn own_pdus(r: &mut Rng, sc: &Session) -> Vec<Pdu> {
    let v = sc.v;
    let session = sc.session_id;
    let mut ski = [0u8; 20];
    ski.copy_from_slice(&r.bytes(20));
    let key_len = *r.pick(&[0usize, 4, 91]);
    let err_code = *r.pick(&[0u16, 2, 3, 4, 5, 8]);
    let providers = *r.pick(&[0usize, 1, 3]);
    vec![
        Pdu::SerialNotify { v, session, serial: b32(r) },
        Pdu::SerialQuery { v, session, serial: b32(r) },
        Pdu::ResetQuery { v },
        Pdu::CacheResponse { v, session },
        Pdu::V4 { v, flags: 1, plen: 24, mlen: 24, addr: 0xC000_0200, asn: b32(r), via_item: true, explicit_max: true },
        Pdu::V6 { v, flags: 1, plen: 32, mlen: 48, addr: 0x2001_0db8u128 << 96, asn: b32(r), via_item: true, explicit_max: true },
        Pdu::EndOfData { v, session, serial: b32(r), refresh: 3600, retry: 600, expire: 7200 },
        Pdu::CacheReset { v },
        Pdu::RouterKey { v, flags: 1, ski, asn: b32(r), info: r.bytes(key_len), via_item: true },
        Pdu::Error { v, code: err_code, pdu: Vec::new(), text: b"going away".to_vec() },
        Pdu::Error { v, code: 2, pdu: Vec::new(), text: Vec::new() },
        Pdu::Aspa { v, flags: 1, customer: b32(r), providers: (0..providers).map(|_| b32(r)).collect(), via_item: true },
    ]
}

//------------ damage --------------------------------------------------------------

#[derive(Clone, Debug, PartialEq, Eq)]
enum Damage {
    Intact,
    Version { k: usize, new: u8 },
    Type { k: usize, new: u8 },
    Length { k: usize, announced: u32 },
    /// the PDU is cut or zero-padded to the announced length
    Resized { k: usize, announced: u32 },
    Replaced { k: usize, by: Pdu },
    InsertedBefore { k: usize, extra: Pdu },
    /// the stream ends after this many octets of the transcript
    Truncated { kept: usize },
}

impl Damage {
    fn slot(&self) -> Option<usize> {
        match self {
            Damage::Intact | Damage::Truncated { .. } => None,
            Damage::Version { k, .. }
            | Damage::Type { k, .. }
            | Damage::Length { k, .. }
            | Damage::Resized { k, .. }
            | Damage::Replaced { k, .. }
            | Damage::InsertedBefore { k, .. } => Some(*k),
        }
    }

    fn class(&self, true_len: u32) -> String {
        fn type_class(t: u8) -> String {
            if t <= 11 && t != 5 {
                format!("{}", t)
            } else {
                "unassigned".into()
            }
        }
        fn len_class(announced: u32, true_len: u32) -> String {
            if announced < 8 {
                "0..7".into()
            } else if announced.abs_diff(true_len) <= 4 {
                format!("true{:+}", announced as i64 - true_len as i64)
            } else if announced <= 40 {
                "8..40".into()
            } else if announced < 0x1_0000 {
                "41..65535".into()
            } else {
                "2^16..".into()
            }
        }
        match self {
            Damage::Intact => "intact".into(),
            Damage::Version { new, .. } => {
                if *new <= 3 {
                    format!("version->{}", new)
                } else {
                    "version->4..255".into()
                }
            }
            Damage::Type { new, .. } => format!("type->{}", type_class(*new)),
            Damage::Length { announced, .. } => format!("length->{}", len_class(*announced, true_len)),
            Damage::Resized { announced, .. } => format!("resized->{}", len_class(*announced, true_len)),
            Damage::Replaced { by, .. } => format!("replaced-by-{}", by.name()),
            Damage::InsertedBefore { extra, .. } => format!("inserted-{}", extra.name()),
            Damage::Truncated { .. } => "truncated".into(),
        }
    }
}

/// The stream the server sends with the fault applied, and what has to be judged.
struct Faulted {
    stream: Vec<u8>,
    /// the stream ends here
    limit: usize,
    /// number of the client call that reads the fault
    call: usize,
    /// (reader position, offset of the judged header in `stream`, header, octets of the PDU after it that the same call reads)
    judged: Option<(Reader, usize, Hdr, usize)>,
}

fn apply(sc: &Session, d: &Damage) -> Option<Faulted> {
    let mut stream = sc.bytes.clone();
    let total = stream.len();
    match d {
        Damage::Intact => Some(Faulted { stream, limit: total, call: sc.exchanges - 1, judged: None }),
        Damage::Truncated { kept } => {
            let kept = (*kept).min(total);
            // the first call whose exchange is not complete in what is left
            let call = sc.xchg_end.iter().position(|e| *e > kept).unwrap_or(sc.exchanges - 1);
            Some(Faulted { stream, limit: kept, call, judged: None })
        }
        _ => {
            let k = d.slot()?;
            let s = &sc.slots[k];
            // what the same call reads after the slot (for the version rule: the next PDU at the latest)
            let next_len = |from: usize| -> usize {
                match sc.slots.get(from) {
                    Some(n) if n.xchg == s.xchg => n.end - n.start,
                    _ => 0,
                }
            };
            let at = s.start;
            let follow;
            match d {
                Damage::Version { new, .. } => {
                    stream[at] = *new;
                    follow = next_len(k + 1);
                }
                Damage::Type { new, .. } => {
                    stream[at + 1] = *new;
                    follow = next_len(k + 1);
                }
                Damage::Length { announced, .. } => {
                    stream[at + 4..at + 8].copy_from_slice(&announced.to_be_bytes());
                    follow = next_len(k + 1);
                }
                Damage::Resized { announced, .. } => {
                    let want = (*announced as usize).max(8);
                    let mut pdu = sc.bytes[s.start..s.end].to_vec();
                    pdu.resize(want, 0);
                    pdu[4..8].copy_from_slice(&(want as u32).to_be_bytes());
                    stream.splice(s.start..s.end, pdu);
                    follow = next_len(k + 1);
                }
                Damage::Replaced { by, .. } => {
                    stream.splice(s.start..s.end, by.encode());
                    follow = next_len(k + 1);
                }
                Damage::InsertedBefore { extra, .. } => {
                    stream.splice(s.start..s.start, extra.encode());
                    follow = next_len(k);
                }
                _ => return None,
            }
            if stream == sc.bytes {
                return None; // the fault changed nothing
            }
            let h = parse_header(&stream[at..])?;
            let limit = stream.len();
            Some(Faulted { stream, limit, call: s.xchg, judged: Some((s.reader, at, h, follow)) })
        }
    }
}

//------------ running ---------------------------------------------------------------

struct Outcome {
    /// an earlier call (which reads undamaged octets only) did not return Ok
    earlier_failed: Option<(usize, String)>,
    end: &'static str,
    result: Option<Result<(), String>>,
    polls: u64,
    consumed: usize,
    reads_after_eof: u32,
    tripped: bool,
    apply_calls: usize,
    items: usize,
    sent: Vec<u8>,
    panic: Option<String>,
}

fn one_call(client: &mut Client<Peer, Tgt>, entry: EntryMode, budget: u64) -> Result<Driven<Result<(), io::Error>>, String> {
    match entry {
        EntryMode::Step => catch(|| {
            let fut = std::pin::pin!(client.step());
            drive_counted(fut, budget)
        }),
        EntryMode::UpdateApply => catch(|| {
            let fut = std::pin::pin!(async {
                let update = client.update().await?;
                client.apply(update).await
            });
            drive_counted(fut, budget)
        }),
    }
}

fn run_session(sc: &Session, f: &Faulted, chunking: &Chunking) -> Outcome {
    let sh = Arc::new(Mutex::new(Shared::default()));
    let peer = Peer::new(f.stream.clone(), f.limit, chunking.clone(), sh.clone());
    let state = sc.init_state.map(|(se, sn)| State::from_parts(se, Serial::from(sn)));
    let mut client = Client::with_initial_version(sc.client_version, peer, Tgt::default(), state);
    let budget = budget_for(f.stream.len());
    let mut out = Outcome {
        earlier_failed: None,
        end: "done",
        result: None,
        polls: 0,
        consumed: 0,
        reads_after_eof: 0,
        tripped: false,
        apply_calls: 0,
        items: 0,
        sent: Vec::new(),
        panic: None,
    };
    for call in 0..f.call {
        let why = match one_call(&mut client, sc.entry, budget) {
            Ok(Driven::Done(Ok(()), _)) => None,
            Ok(Driven::Done(Err(e), _)) => Some(format!("Err({:?}: {})", e.kind(), e)),
            Ok(Driven::Budget(p)) => Some(format!("pending after {} polls", p)),
            Ok(Driven::Parked(p)) => Some(format!("parked after {} polls", p)),
            Err(text) => Some(format!("panic: {}", text)),
        };
        if let Some(why) = why {
            out.earlier_failed = Some((call, why));
            return out;
        }
    }
    let applied_before = client.target().applied.len();
    match one_call(&mut client, sc.entry, budget) {
        Ok(Driven::Done(res, polls)) => {
            out.polls = polls;
            out.result = Some(res.map_err(|e| format!("{:?}: {}", e.kind(), e)));
        }
        Ok(Driven::Budget(polls)) => {
            out.polls = polls;
            out.end = "budget";
        }
        Ok(Driven::Parked(polls)) => {
            out.polls = polls;
            out.end = "parked";
        }
        Err(text) => {
            out.end = "panic";
            out.panic = Some(text);
        }
    }
    let applied = &client.target().applied;
    out.apply_calls = applied.len().saturating_sub(applied_before);
    out.items = applied.iter().skip(applied_before).map(|a| a.1).sum();
    let g = sh.lock().unwrap_or_else(|e| e.into_inner());
    out.consumed = g.consumed;
    out.reads_after_eof = g.reads_after_eof;
    out.tripped = g.tripped;
    out.sent = g.out.clone();
    out
}

//------------ judging ---------------------------------------------------------------

struct SessMon {
    evals: u64,
    seen: HashSet<String>,
    refused_as_required: u64,
    open_ok: u64,
    open_err: u64,
    intact_ok: u64,
    intact_refused: u64,
    parked: u64,
    earlier_failed: u64,
    eof_reads_max: u32,
}

fn session_json(sc: &Session) -> Value {
    json!({
        "transcript_version": sc.v,
        "client_initial_version": sc.client_version,
        "client_initial_state": sc.init_state.map(|(a, b)| format!("{}:{}", a, b)),
        "client_entry_point_per_exchange": sc.entry.name(),
        "exchanges": sc.exchanges,
        "transcript": sc.slots.iter().enumerate().map(|(i, s)| json!({
            "index": i, "exchange": s.xchg, "role": s.role.name(), "read_at": s.reader.name(), "offset": s.start, "pdu": s.pdu.to_json(),
        })).collect::<Vec<_>>(),
        "undamaged_transcript_hex": hex_capped(&sc.bytes, 4096),
    })
}

fn xchg_class(x: usize) -> &'static str {
    match x {
        0 => "x0",
        1 => "x1",
        _ => "x2+",
    }
}

fn judge(ctx: &mut Ctx, mon: &mut SessMon, sc: &Session, d: &Damage, chunking: &Chunking) {
    let f = match apply(sc, d) {
        Some(f) => f,
        None => return,
    };
    let o = run_session(sc, &f, chunking);
    mon.evals += 1;
    let k = d.slot();
    let true_len = k.map(|k| (sc.slots[k].end - sc.slots[k].start) as u32).unwrap_or(0);
    let dclass = d.class(true_len);
    let (reader_name, role_name, x) = match (k, d) {
        (Some(k), _) => (sc.slots[k].reader.name(), sc.slots[k].role.name(), sc.slots[k].xchg),
        (None, Damage::Truncated { kept }) => {
            // the PDU the stream ends in (or in front of)
            let i = sc.slots.iter().position(|s| s.end > *kept).unwrap_or(sc.slots.len() - 1);
            let s = &sc.slots[i];
            (if *kept == s.start { s.reader.name() } else { "inside-pdu" }, s.role.name(), s.xchg)
        }
        _ => ("-", "-", 0),
    };
    let class = format!("sess client {} v{} {} at {}:{}@{} {}", sc.entry.name(), sc.v, dclass, reader_name, role_name, xchg_class(x), chunking.label());
    if mon.seen.insert(class.clone()) {
        ctx.sig(&class);
    }
    if o.reads_after_eof > mon.eof_reads_max {
        mon.eof_reads_max = o.reads_after_eof;
    }
    let detail = |extra: Value| -> Value {
        json!({
            "session": session_json(sc),
            "damage": format!("{:?}", d),
            "damaged_pdu": k.map(|k| json!({"index": k, "exchange": sc.slots[k].xchg, "role": sc.slots[k].role.name(), "read_at": sc.slots[k].reader.name(), "pdu": sc.slots[k].pdu.to_json()})),
            "header_the_client_reads_there": f.judged.map(|(_, at, h, _)| json!({"offset": at, "hex": hex(&f.stream[at..at + 8]), "version": h.version, "type": h.pdu, "length": h.length})),
            "stream_hex": hex_capped(&f.stream, 4096),
            "stream_ends_after": f.limit,
            "delivery": format!("{:?}", chunking),
            "client_call_judged": format!("{} #{} on this connection ({} earlier calls returned Ok)", sc.entry.name(), f.call + 1, f.call),
            "observed": extra,
        })
    };
    if let Some((call, why)) = &o.earlier_failed {
        // a call that only reads undamaged octets did not complete: nothing to judge here
        mon.earlier_failed += 1;
        if ctx.wants_sample("sess-client-earlier-exchange-refused") {
            let v = detail(json!({"call": call + 1, "outcome": why}));
            ctx.sample("sess-client-earlier-exchange-refused", || v);
        }
        return;
    }
    let where_ = if k.is_some() { reader_name } else { "any" };
    if let Some(text) = &o.panic {
        ctx.violation(
            &format!("C07:panic:client-session:{}", panic_location(text)),
            &format!("Client::{} panicked in exchange {} of a connection: {}", sc.entry.name(), f.call + 1, text),
            detail(json!({"panic": text})),
        );
        return;
    }
    if o.end == "budget" {
        ctx.violation(
            &format!("C07:client-session-no-completion-within-poll-budget:{}", where_),
            &format!("Client::{} (exchange {} of the connection) was still pending and asking to be polled after {} polls on a stream of {} octets", sc.entry.name(), f.call + 1, o.polls, f.limit),
            detail(json!({"polls": o.polls, "consumed": o.consumed, "reads_after_eof": o.reads_after_eof})),
        );
        return;
    }
    if o.tripped || o.reads_after_eof > EOF_READS_TOLERATED {
        ctx.violation(
            &format!("C07:client-session-keeps-reading-after-eof:{}", where_),
            &format!("Client::{} (exchange {} of the connection) read the stream {} times after it had ended (it only stopped because the mock socket turned the third read into an error)", sc.entry.name(), f.call + 1, o.reads_after_eof),
            detail(json!({"reads_after_eof": o.reads_after_eof, "consumed": o.consumed, "result": format!("{:?}", o.result)})),
        );
        return;
    }
    if o.end == "parked" {
        mon.parked += 1;
        if ctx.wants_sample("sess-client-parked") {
            let v = detail(json!({"polls": o.polls, "consumed": o.consumed}));
            ctx.sample("sess-client-parked", || v);
        }
        return;
    }
    let ok = matches!(o.result, Some(Ok(())));
    // what the statement demands
    let demand: Option<(&'static str, usize)> = match (d, f.judged) {
        (Damage::Truncated { kept }, _) => {
            if *kept < sc.bytes.len() {
                Some(("stream-ends-inside-conversation", *kept))
            } else {
                None
            }
        }
        (_, Some((reader, at, h, follow))) => header_must_fail(reader, sc.v, h).map(|why| {
            let bound = match why {
                // the next PDU at the latest shows that the versions disagree
                "version-differs-from-session" => at + (h.length as usize).max(8) + follow,
                _ => at.saturating_add((h.length as usize).max(32)),
            };
            (why, bound)
        }),
        _ => None,
    };
    match demand {
        Some((why, bound)) => {
            if ok {
                let hdr = f.judged.map(|(_, at, _, _)| hex(&f.stream[at..at + 8])).unwrap_or_default();
                ctx.violation(
                    &format!("C07:client-session-accepts-damaged-pdu:{}:{}", where_, why),
                    &format!(
                        "Client::{} returned Ok in exchange {} of a connection ({} items handed to the target) although {}",
                        sc.entry.name(),
                        f.call + 1,
                        o.items,
                        match d {
                            Damage::Truncated { kept } => format!("the stream ends after {} of {} octets", kept, sc.bytes.len()),
                            _ => format!("the header it reads at the position '{}' is {} ({}; fault: {:?}, transcript PDU #{} {})", reader_name, hdr, why, d, k.unwrap_or(0), role_name),
                        }
                    ),
                    detail(json!({"result": "Ok", "target_apply_calls_in_this_exchange": o.apply_calls, "items_handed_to_target": o.items, "consumed": o.consumed, "octets_sent_by_client_hex": hex_capped(&o.sent, 256)})),
                );
                return;
            }
            mon.refused_as_required += 1;
            ctx.obs(&format!("sess_refused_as_required_at:{}", where_), 1);
            if o.consumed > bound {
                ctx.violation(
                    &format!("C07:client-session-overread-on-damaged-pdu:{}:{}", where_, why),
                    &format!("Client::{} gave up only after taking {} octets of the stream; what it had to look at ends at {}", sc.entry.name(), o.consumed, bound),
                    detail(json!({"result": format!("{:?}", o.result), "consumed": o.consumed, "bound": bound})),
                );
                return;
            }
            let key = format!("sess-client-refused:{}", where_);
            if ctx.wants_sample(&key) {
                let v = json!({"entry": sc.entry.name(), "version": sc.v, "exchanges": sc.exchanges, "damage": format!("{:?}", d), "read_at": reader_name, "role": role_name, "exchange": x + 1,
                    "header_hex": f.judged.map(|(_, at, _, _)| hex(&f.stream[at..at + 8])), "why": why, "delivery": chunking.label(), "result": format!("{:?}", o.result), "octets_taken": o.consumed, "polls": o.polls});
                ctx.sample(&key, || v);
            }
        }
        None => {
            if *d == Damage::Intact {
                if ok {
                    mon.intact_ok += 1;
                } else {
                    mon.intact_refused += 1;
                    if ctx.wants_sample("sess-client-intact-transcript-refused") {
                        let v = detail(json!({"result": format!("{:?}", o.result)}));
                        ctx.sample("sess-client-intact-transcript-refused", || v);
                    }
                }
            } else if ok {
                mon.open_ok += 1;
                ctx.obs(&format!("sess_open_outcome_ok:{}:{}", reader_name, dclass), 1);
                if ctx.wants_sample("sess-client-open-case-accepted") {
                    let v = json!({"entry": sc.entry.name(), "version": sc.v, "damage": format!("{:?}", d), "read_at": reader_name, "role": role_name, "exchange": x + 1,
                        "header_hex": f.judged.map(|(_, at, _, _)| hex(&f.stream[at..at + 8])), "items_handed_to_target": o.items});
                    ctx.sample("sess-client-open-case-accepted", || v);
                }
            } else {
                mon.open_err += 1;
            }
        }
    }
}

fn session_faults(ctx: &mut Ctx, mon: &mut SessMon, r: &mut Rng, sc: &Session, chunking: &Chunking, reduced: bool) {
    judge(ctx, mon, sc, &Damage::Intact, chunking);
    let own = own_pdus(r, sc);
    for k in 0..sc.slots.len() {
        let s = &sc.slots[k];
        if reduced && s.reader == Reader::PayloadSeq && s.xchg + 1 < sc.exchanges {
            // Miri: the payload sequence of the earlier exchanges is what c07_conn covers
            continue;
        }
        ctx.obs(&format!("sess_positions_damaged:{}", s.reader.name()), 1);
        ctx.obs(&format!("sess_pdus_damaged:{}", s.role.name()), 1);
        let own_version = s.pdu.version();
        let mut versions: Vec<u8> = if reduced { vec![(sc.v + 1) % 3, 3] } else { vec![0, 1, 2, 3, 0x7F, 0xFF, r.next_u32() as u8] };
        versions.retain(|x| *x != own_version);
        versions.sort();
        versions.dedup();
        for new in versions {
            judge(ctx, mon, sc, &Damage::Version { k, new }, chunking);
        }
        let mut types: Vec<u8> = if reduced { vec![0, 1, 3, 7, 10, 0xFF] } else { (0..=13).chain([0x7F, 0xFF, r.next_u32() as u8]).collect() };
        types.retain(|x| *x != s.pdu.type_code());
        types.sort();
        types.dedup();
        for new in types {
            judge(ctx, mon, sc, &Damage::Type { k, new }, chunking);
        }
        let t = (s.end - s.start) as u32;
        let mut lens: Vec<u32> = if reduced {
            vec![0, t - 4, t + 4]
        } else {
            vec![0, 7, 8, 9, 11, 12, 13, 16, 20, 24, 28, 32, 36, t.saturating_sub(4), t - 1, t + 1, t + 4, t + 8, t + 0x1_0000]
        };
        lens.retain(|x| *x != t);
        lens.sort();
        lens.dedup();
        for announced in lens {
            judge(ctx, mon, sc, &Damage::Length { k, announced }, chunking);
        }
        let mut sizes: Vec<u32> = if reduced { vec![t + 4] } else { vec![8, 12, 16, 20, 24, 28, 32, 36, t.saturating_sub(4), t + 4, t + 8] };
        sizes.retain(|x| *x != t && *x >= 8);
        sizes.sort();
        sizes.dedup();
        for announced in sizes {
            judge(ctx, mon, sc, &Damage::Resized { k, announced }, chunking);
        }
        for (i, p) in own.iter().enumerate() {
            if reduced && i % 3 != k % 3 {
                continue;
            }
            judge(ctx, mon, sc, &Damage::Replaced { k, by: p.clone() }, chunking);
            judge(ctx, mon, sc, &Damage::InsertedBefore { k, extra: p.clone() }, chunking);
        }
    }
    // the cache closes the connection after every octet count
    let total = sc.bytes.len();
    for kept in 0..total {
        let near = if reduced { 2 } else { 9 };
        let near_boundary = sc.slots.iter().any(|s| kept.abs_diff(s.start) <= near);
        if !near_boundary && kept % if reduced { 7 } else { 3 } != 0 {
            continue;
        }
        judge(ctx, mon, sc, &Damage::Truncated { kept }, chunking);
    }
}

//------------ entry ---------------------------------------------------------------------

/// Called from `run_conn` (which has decided that this stage runs the
/// connection-level workload) inside an entered, never driven runtime.
pub(super) fn run_sessions(ctx: &mut Ctx) {
    let miri = ctx.stage == Stage::Miri;
    let mut mon = SessMon {
        evals: 0,
        seen: HashSet::new(),
        refused_as_required: 0,
        open_ok: 0,
        open_err: 0,
        intact_ok: 0,
        intact_refused: 0,
        parked: 0,
        earlier_failed: 0,
        eof_reads_max: 0,
    };
    let mut r = ctx.rng("session-level");
    let sessions = ctx.stage_budget((480, 12_000), 480, 4, 0);
    for i in 0..sessions {
        // shards start at different places of the (version, exchanges, entry point, delivery) grid
        let j = i + ctx.shard;
        let v = (j % 3) as u8;
        let exchanges = 2 + ((j / 3) % 3) as usize;
        let entry = if (j / 9) % 2 == 0 { EntryMode::Step } else { EntryMode::UpdateApply };
        let chunking = match (j / 18) % 3 {
            0 => Chunking::AllAtOnce,
            1 => Chunking::ByteWise,
            _ => random_script(&mut r),
        };
        let sc = gen_session(&mut r, v, if miri { 2 } else { exchanges }, entry, if miri { 2 } else { 3 });
        ctx.breadcrumb(&format!("sess client session {} v{} x{} {}", i, v, sc.exchanges, entry.name()));
        ctx.obs(&format!("sess_transcripts_with_{}_exchanges", sc.exchanges), 1);
        if sc.fallbacks > 0 {
            ctx.obs("sess_transcripts_with_cache_reset_fallback", 1);
        }
        if sc.negotiated_by_error {
            ctx.obs("sess_transcripts_with_version_error_report_first", 1);
        }
        session_faults(ctx, &mut mon, &mut r, &sc, &chunking, miri);
    }
    ctx.evals(mon.evals);
    ctx.obs("sess_client_calls_judged", mon.evals);
    ctx.obs("sess_damaged_conversations_refused_as_required", mon.refused_as_required);
    ctx.obs("sess_open_cases_accepted", mon.open_ok);
    ctx.obs("sess_open_cases_refused", mon.open_err);
    ctx.obs("sess_intact_transcripts_completed", mon.intact_ok);
    ctx.obs("sess_intact_transcripts_refused", mon.intact_refused);
    ctx.obs("sess_calls_parked_on_a_timer", mon.parked);
    ctx.obs("sess_undamaged_earlier_exchange_did_not_complete", mon.earlier_failed);
    ctx.obs_max("sess_reads_after_eof_in_one_stream", mon.eof_reads_max as u64);
    if mon.intact_refused > 0 {
        ctx.notes.push(format!("C07: {} undamaged multi-exchange transcripts were refused by the client (see samples); their damaged variants say little", mon.intact_refused));
    }
    if ctx.tier == Tier::Quick && !miri && mon.refused_as_required == 0 {
        ctx.notes.push("C07: session-level workload refused no damaged conversation in this shard".into());
    }
}
