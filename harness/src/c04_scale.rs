//! C04 — the scaling workload: decoding cost as a function of input size.
//!
//! "Does not … use time or memory beyond a fixed multiple of the input size"
//! cannot be seen on small inputs: a decoder that does a linear scan per list
//! entry costs nothing for the dozens of entries mutation of captured objects
//! produces. So every list-like structure a decoder walks is also *generated*
//! at n, 4n and 16n entries (0.1 / 0.4 / 1.6 MB; the thorough tier adds 64n,
//! 6.4 MB): ROA addresses per family, manifest file list, CRL and protocol-CRL revoked entries, ASPA providers,
//! RFC 3779 IP and AS blocks (bare, in certificates, in RTAs), certificate /
//! CSR / identity-certificate extension lists, SIA / AIA / CRLDP names,
//! policy qualifiers, EKU key purposes, name components, signed attributes,
//! BER eContent segments, RTA subject keys / certificates / CRLs / signer
//! infos, TAL lines, and the XML lists of the signed protocol messages.
//! All entries are written by the independent DER writer (`crate::der`,
//! `crate::c02_cms`, `crate::c03*::*_der`) and, where the list lives inside a
//! signed object, spliced into a pool-signed seed which is then re-signed, so
//! that the accessor sweep gets through validation as well.
//!
//! Oracle. Each generated input first goes through the ordinary evaluation
//! of the monitor (no panic, the absolute heap and CPU budgets). Then two
//! scaling laws between consecutive sizes of the same shape, for the decoding
//! step alone (`decode_only`) and for decode + accessor sweep (`evaluate`):
//!
//! * CPU, between consecutive sizes: `t(4n) <= 8 * t(n) + 1 ms` — a linear
//!   or n·log n decoder gives a factor of 4 … 5, a quadratic one 16. A size
//!   is only entered while the law held so far and its predicted cost stays
//!   under 1 s (quick) / 4 s (thorough) of CPU time per run. Thread CPU time, minima over
//!   repeated runs; an excess only counts after three further runs of the
//!   large input that all exceed, each taken next to a steady reference
//!   computation (the CPU clock of this VM also advances while the vCPU is
//!   descheduled), and is dropped as soon as one run satisfies the law.
//! * heap: `peak(4n) <= 8 * peak(n) + 256 KiB` (deterministic; 8 because a
//!   doubling vector may sit just below a growth step at n and just above
//!   one at 4n).
//!
//! Wall-clock time is never read. Nothing here knows what the library is
//! supposed to answer: an input the decoder refuses is counted and not timed.

use super::c04_eval::{b64, decode_only, Ep};
use super::c04_mut::{self as m, Body, LenForm, T};
use super::{catch2, hex, spin_ns, Case, Mon, Plan, Seed, EVAL_STARTED_AT};
use crate::alloc::{thread_cpu_ns, window_peak, window_start};
use crate::c02_cms as cms;
use crate::c03_gen::Flavour;
use crate::core::{fnv64, Ctx, Rng, Stage, Tier};
use crate::der;
use crate::keys::PoolSigner;
use serde_json::{json, Value};
use std::sync::atomic::Ordering;

//------------ Environment ---------------------------------------------------

pub struct Env<'a> {
    pub seeds: &'a [Seed],
    pub pool: Option<&'a PoolSigner>,
}

/// Pre-serialised TLVs spliced verbatim into a tree (one pseudo node).
fn raw(bytes: Vec<u8>) -> T {
    debug_assert!(!bytes.is_empty());
    T { tag: bytes[0], len: LenForm::Raw(Vec::new()), body: Body::Leaf(bytes[1..].to_vec()) }
}

fn cat(items: impl Iterator<Item = Vec<u8>>) -> Vec<u8> {
    let mut out = Vec::new();
    for i in items {
        out.extend_from_slice(&i);
    }
    out
}

const OID_SIA: &[u8] = &[0x2B, 6, 1, 5, 5, 7, 1, 11];
const OID_AIA: &[u8] = &[0x2B, 6, 1, 5, 5, 7, 1, 1];
const OID_CRLDP: &[u8] = &[0x55, 0x1D, 0x1F];
const OID_POLICIES: &[u8] = &[0x55, 0x1D, 0x20];
const OID_EKU: &[u8] = &[0x55, 0x1D, 0x25];

impl Env<'_> {
    fn seed(&self, name: &str) -> Option<&Seed> {
        self.seeds.iter().find(|s| s.name == name)
    }

    /// Clones the TLV tree of a pool-signed seed, applies `edit`, recomputes
    /// the signatures the seed's plan names and serialises.
    fn edit(&self, name: &str, edit: impl FnOnce(&mut Vec<T>) -> Option<()>) -> Option<Vec<u8>> {
        let s = self.seed(name)?;
        let mut f = s.forest.clone()?;
        edit(&mut f)?;
        if let Some(pool) = self.pool {
            let sha = |d: &[u8]| crate::keys::sha256(d);
            match s.plan {
                Plan::X509(k) => {
                    m::resign_x509(&mut f, &[0], &|d| pool.key(k).sign_raw(d));
                }
                Plan::Cms { ee, issuer } => {
                    m::resign_cms(&mut f, &sha, &|d| pool.key(ee).sign_raw(d), &|d| pool.key(issuer).sign_raw(d));
                }
                Plan::None => {}
            }
        }
        Some(m::to_bytes(&f))
    }

    /// Replaces the eContent of a CMS seed.
    pub(super) fn econtent(&self, name: &str, content: Vec<u8>, widen_ee: bool) -> Option<Vec<u8>> {
        self.edit(name, |f| {
            let lay = m::cms_layout(f)?;
            let n = m::at_mut(f, &lay.econtent)?;
            n.tag = 0x04;
            n.len = LenForm::Min;
            n.body = Body::Leaf(content);
            if widen_ee {
                // EE certificate over all addresses, so that validation gets to the content
                let all = der::seq(&[
                    &der::seq(&[&der::octets(&[0, 1]), &der::seq(&[&der::bitstring(0, &[])])]),
                    &der::seq(&[&der::octets(&[0, 2]), &der::seq(&[&der::bitstring(0, &[])])]),
                ]);
                for oid in super::OID_IP_RES {
                    if let Some(v) = octet_after_oid(f, oid) {
                        v.len = LenForm::Min;
                        v.body = Body::Leaf(all.clone());
                    }
                }
            }
            Some(())
        })
    }
}

/// The OCTET STRING that follows the given OID (an `Extension` or an
/// extension request), optionally after a BOOLEAN.
fn octet_after_oid<'a>(f: &'a mut [T], oid: &[u8]) -> Option<&'a mut T> {
    let hits = m::find_all(f, &|t| t.tag == 0x06 && matches!(&t.body, Body::Leaf(b) if b.as_slice() == oid));
    let i = *hits.first()?;
    let mut at = None;
    for k in 1..=2 {
        let t = m::node(f, i + k)?;
        if t.tag == 0x04 {
            at = Some(i + k);
            break;
        }
        if t.tag != 0x01 {
            break;
        }
    }
    m::node_mut(f, at?)
}

/// The children of the value inside an extension's OCTET STRING.
fn ext_inner<'a>(f: &'a mut [T], oid: &[u8]) -> Option<&'a mut Vec<T>> {
    let v = octet_after_oid(f, oid)?;
    match &mut v.body {
        Body::Wrap(_, kids) => Some(kids),
        _ => None,
    }
}

fn set_ext_value(f: &mut [T], oid: &[u8], value: Vec<u8>) -> Option<()> {
    let v = octet_after_oid(f, oid)?;
    v.len = LenForm::Min;
    v.body = Body::Leaf(value);
    Some(())
}

/// Sets the resource extension of whichever generation (RFC 3779 / RFC 8360) is present.
fn set_res_ext(f: &mut [T], oids: &[&[u8]; 2], value: Vec<u8>) -> Option<()> {
    for oid in oids {
        if octet_after_oid(f, oid).is_some() {
            return set_ext_value(f, oid, value);
        }
    }
    None
}

/// `[3] { SEQUENCE OF Extension }` of the certificate at `cert` (path of the
/// outer SEQUENCE { tbs, alg, sig }).
fn ext_list<'a>(f: &'a mut [T], cert: &[usize]) -> Option<&'a mut Vec<T>> {
    let mut p = cert.to_vec();
    p.push(0);
    let tbs = m::at_mut(f, &p)?;
    let x = tbs.children_mut()?.iter_mut().find(|k| k.tag == 0xA3)?;
    x.children_mut()?.get_mut(0)?.children_mut()
}

//------------ Entry generators (independent encoder) ------------------------

/// A bijection on 0..2^k (k = bits needed for `n`): where the order of the
/// entries is free (ROA addresses, revoked serials, file names, key
/// identifiers) they are written in this scrambled order, so that a decoder
/// does not meet its best case (appending to the end of something sorted).
fn scr(i: usize, n: usize) -> u64 {
    let k = (usize::BITS - n.max(2).leading_zeros()) as u64;
    (i as u64).wrapping_mul(0x9E37_79B1) & ((1u64 << k) - 1)
}

fn v4_blocks(n: usize, salt: u64) -> Vec<(u128, u128)> {
    // every other /24: neither equal nor adjacent
    let base = (1 + salt % 32) << 24;
    (0..n as u128).map(|i| (base as u128 + (i << 9), base as u128 + (i << 9) + 255)).collect()
}

fn v6_ranges(n: usize, salt: u64) -> Vec<(u128, u128)> {
    let base = (0x2001_0db8u128 << 96) + ((salt as u128 % 32) << 64);
    (0..n as u128).map(|i| (base + (i << 12) + 1, base + (i << 12) + 6)).collect()
}

fn v6_prefixes(n: usize, salt: u64) -> Vec<(u128, u128)> {
    let base = (0x2a00u128 << 112) + ((salt as u128 % 32) << 100);
    (0..n as u128).map(|i| (base + (i << 81), base + (i << 81) + ((1u128 << 80) - 1))).collect()
}

fn as_ids(n: usize, salt: u64) -> Vec<(u128, u128)> {
    let base = 70_000 + (salt as u128 % 1000);
    (0..n as u128).map(|i| (base + 2 * i, base + 2 * i)).collect()
}

fn as_ranges(n: usize, salt: u64) -> Vec<(u128, u128)> {
    let base = 70_000 + (salt as u128 % 1000);
    (0..n as u128).map(|i| (base + 8 * i, base + 8 * i + 3)).collect()
}

fn ip_list(fl: Flavour, blocks: &[(u128, u128)]) -> Vec<u8> {
    crate::c03_ip::ip_der(fl, blocks, false)
}

fn ip_family(fl: Flavour, list: &[u8]) -> Vec<u8> {
    let afi: &[u8] = if fl == Flavour::V4 { &[0, 1] } else { &[0, 2] };
    der::seq(&[&der::octets(afi), list])
}

fn as_identifiers(list: &[u8]) -> Vec<u8> {
    der::seq(&[&der::tlv(0xA0, list)])
}

const T_2025: (i64, u32, u32) = (2025, 1, 1);

fn t(y: i64, mo: u32, d: u32) -> i64 {
    cms::unix_from_civil(y, mo, d, 0, 0, 0)
}

fn revoked_entries(n: usize, salt: u64) -> Vec<u8> {
    let when = cms::x509_time(t(2024, 5, 1));
    cat((0..n).map(|i| der::seq(&[&der::uint(1000 + salt as u128 % 500 + 3 * scr(i, n) as u128), &when])))
}

fn crl_tbs(pool: Option<&PoolSigner>, n: usize, salt: u64) -> Vec<u8> {
    // TBSCertList as RFC 5280 has it; the entries are written separately (cms::crl_tbs would
    // need a Vec of owned structs per entry)
    let aki = match pool {
        Some(p) => cms::ski_of_spki(&p.key(0).spki),
        None => vec![7u8; 20],
    };
    let issuer = match pool {
        // the fixed issuer's subject name is the hex key identifier
        Some(_) => cms::name_cn(&hex(&aki)),
        None => cms::name_cn("c04"),
    };
    let exts = der::seq_of(&[
        cms::extension(cms::OID_CE_AKI, false, &der::seq(&[&der::tlv(der::ctx_prim(0), &aki)])),
        cms::extension(cms::OID_CE_CRL_NUMBER, false, &der::uint(9)),
    ]);
    let mut parts: Vec<Vec<u8>> = vec![
        der::uint(1),
        cms::alg_sha256_with_rsa(),
        issuer,
        cms::x509_time(t(T_2025.0, T_2025.1, T_2025.2)),
        cms::x509_time(t(2027, 1, 1)),
    ];
    if n > 0 {
        parts.push(der::tlv(der::T_SEQUENCE, &revoked_entries(n, salt)));
    }
    parts.push(der::tlv(der::ctx(0), &exts));
    der::seq_of(&parts)
}

fn mft_econtent(n: usize, salt: u64) -> Vec<u8> {
    let exts = ["roa", "cer", "crl", "asa", "mft"];
    let entries: Vec<cms::MftEntry> = (0..n)
        .map(|i| {
            let name = format!("f{:07}-{}.{}", scr(i, n), salt % 97, exts[i % exts.len()]);
            let mut hash = [0u8; 32];
            hash[..8].copy_from_slice(&(i as u64).wrapping_mul(0x9E37_79B9_7F4A_7C15).to_be_bytes());
            cms::MftEntry::new(name.as_bytes(), &hash)
        })
        .collect();
    cms::manifest_econtent(258, t(T_2025.0, T_2025.1, T_2025.2), t(2027, 1, 1), &entries)
}

fn roa_econtent(v4: usize, v6: usize, maxlen: bool, salt: u64) -> Vec<u8> {
    let mut fams = Vec::new();
    if v4 > 0 {
        let base = ((1 + salt % 32) as u32) << 24;
        fams.push(cms::RoaFamily::v4(
            (0..v4).map(|i| (cms::Pfx::v4(base + ((scr(i, v4) as u32) << 9), 24), if maxlen { Some(24 + (i % 9) as u8) } else { None })).collect(),
        ));
    }
    if v6 > 0 {
        let base = (0x2a00u128 << 112) + ((salt as u128 % 32) << 100);
        fams.push(cms::RoaFamily::v6(
            (0..v6).map(|i| (cms::Pfx::v6(base + ((scr(i, v6) as u128) << 81), 48), if maxlen { Some(48 + (i % 17) as u8) } else { None })).collect(),
        ));
    }
    cms::roa_econtent(64496, &fams, false)
}

fn aspa_econtent(n: usize, salt: u64) -> Vec<u8> {
    // ascending, without the customer
    let base = 70_000 + (salt % 1000) as u32;
    let provs: Vec<u32> = (0..n as u32).map(|i| base + 3 * i).collect();
    cms::aspa_econtent(64496, &provs)
}

fn name_rdns(n: usize, salt: u64) -> Vec<u8> {
    let cn = der::oid(&[2, 5, 4, 3]);
    let rdns = cat((0..n).map(|i| {
        let v = format!("c{:06}x{}", i, salt % 10);
        der::tlv(der::T_SET, &der::seq(&[&cn, &der::tlv(der::T_PRINTABLE, v.as_bytes())]))
    }));
    der::tlv(der::T_SEQUENCE, &rdns)
}

fn name_atvs(n: usize, salt: u64) -> Vec<u8> {
    // one relative distinguished name with n attribute-value pairs
    let cn = der::oid(&[2, 5, 4, 3]);
    let atvs = cat((0..n).map(|i| {
        let v = format!("c{:06}x{}", i, salt % 10);
        der::seq(&[&cn, &der::tlv(der::T_PRINTABLE, v.as_bytes())])
    }));
    der::seq(&[&der::tlv(der::T_SET, &atvs)])
}

fn unknown_extensions(n: usize, salt: u64) -> Vec<u8> {
    cat((0..n as u64).map(|i| der::seq(&[&der::oid(&[1, 3, 6, 1, 4, 1, 55555, 1 + salt % 50, i]), &der::octets(&der::null())])))
}

fn https_names(n: usize, salt: u64) -> Vec<u8> {
    cat((0..n).map(|i| der::tlv(der::ctx_prim(6), format!("https://h{}.example.com/p/{:06}.cer", salt % 10, i).as_bytes())))
}

fn tal_text(pool: Option<&PoolSigner>, uris: usize, comments: usize, key_line: usize, salt: u64) -> Option<Vec<u8>> {
    let spki = pool?.key(0).spki.clone();
    let mut s = String::new();
    for i in 0..comments {
        s.push_str(&format!("# comment line {:07} of a trust anchor locator ({})\n", i, salt % 10));
    }
    s.push_str("rsync://example.com/ta/ta.cer\n");
    for i in 0..uris {
        if i % 2 == 0 {
            s.push_str(&format!("https://h{}.example.com/ta/ta-{:07}.cer\n", salt % 10, i));
        } else {
            s.push_str(&format!("rsync://h{}.example.com/ta/ta-{:07}.cer\n", salt % 10, i));
        }
    }
    s.push('\n');
    let k = b64(&spki);
    for chunk in k.as_bytes().chunks(key_line.max(1)) {
        s.push_str(std::str::from_utf8(chunk).ok()?);
        s.push('\n');
    }
    Some(s.into_bytes())
}

//------------ XML of the signed protocol messages ---------------------------

fn prov_list_response(env: &Env, classes: usize, as_ids: usize, v4: usize, issued: usize, salt: u64) -> Option<Vec<u8>> {
    let issuer = b64(&env.seed("built/ta.cer")?.data);
    let child = b64(&env.seed("built/ca.cer")?.data);
    let mut s = String::from("<message xmlns=\"http://www.apnic.net/specs/rescerts/up-down/\" version=\"1\" sender=\"parent\" recipient=\"child\" type=\"list_response\">\n");
    for c in 0..classes {
        let asn: Vec<String> = (0..as_ids.max(1)).map(|i| format!("{}", 70_000 + salt % 1000 + 2 * i as u64)).collect();
        let ip: Vec<String> = (0..v4.max(1) as u32).map(|i| {
            let a = ((1 + (salt % 32) as u32) << 24) + (i << 9);
            format!("{}.{}.{}.0/24", a >> 24, (a >> 16) & 255, (a >> 8) & 255)
        }).collect();
        s.push_str(&format!(
            "<class class_name=\"c{}\" cert_url=\"rsync://example.com/ta/ta.cer\" resource_set_as=\"{}\" resource_set_ipv4=\"{}\" resource_set_ipv6=\"2001:db8::/32\" resource_set_notafter=\"2030-01-01T00:00:00Z\">",
            c, asn.join(","), ip.join(",")
        ));
        for i in 0..issued {
            s.push_str(&format!("<certificate cert_url=\"rsync://example.com/repo/ca/c{:05}.cer\">{}</certificate>", i, child));
        }
        s.push_str(&format!("<issuer>{}</issuer></class>\n", issuer));
    }
    s.push_str("</message>");
    Some(s.into_bytes())
}

fn pub_list_reply(n: usize, salt: u64) -> Vec<u8> {
    let mut s = String::from("<msg xmlns=\"http://www.hactrn.net/uris/rpki/publication-spec/\" version=\"4\" type=\"reply\">\n");
    for i in 0..n {
        let h = crate::core::hex(&(i as u64 ^ salt).wrapping_mul(0x9E37_79B9_7F4A_7C15).to_be_bytes());
        s.push_str(&format!("<list hash=\"{}{}{}{}\" uri=\"rsync://example.com/repo/ca/o{:07}.roa\" />\n", h, h, h, h, i));
    }
    s.push_str("</msg>");
    s.into_bytes()
}

fn pub_delta(n: usize, salt: u64) -> Vec<u8> {
    let mut s = String::from("<msg xmlns=\"http://www.hactrn.net/uris/rpki/publication-spec/\" version=\"4\" type=\"query\">\n");
    for i in 0..n {
        let h = crate::core::hex(&(i as u64 ^ salt).wrapping_mul(0x9E37_79B9_7F4A_7C15).to_be_bytes());
        match i % 3 {
            0 => s.push_str(&format!("<publish tag=\"t{}\" uri=\"rsync://example.com/repo/ca/o{:07}.roa\">b2JqZWN0IGJ5dGVz</publish>\n", i, i)),
            1 => s.push_str(&format!("<publish tag=\"t{}\" hash=\"{}{}{}{}\" uri=\"rsync://example.com/repo/ca/o{:07}.cer\">b2JqZWN0IGJ5dGVz</publish>\n", i, h, h, h, h, i)),
            _ => s.push_str(&format!("<withdraw tag=\"t{}\" hash=\"{}{}{}{}\" uri=\"rsync://example.com/repo/ca/o{:07}.mft\" />\n", i, h, h, h, h, i)),
        }
    }
    s.push_str("</msg>");
    s.into_bytes()
}

//------------ Shapes ---------------------------------------------------------

pub struct Shape {
    pub name: &'static str,
    /// what the n entries are (goes into the violation detail)
    pub recipe: &'static str,
    pub eps: &'static [Ep],
    /// octets one entry adds, roughly (n is chosen so that n entries make ~100 kB)
    pub unit: usize,
    /// the largest n the decoder admits (usize::MAX when unbounded)
    pub max_n: usize,
    pub build: fn(&Env, usize, u64) -> Option<Vec<u8>>,
}

const IPRES: &[Ep] = &[Ep::IpResDer, Ep::IpResBer];
const ASRES: &[Ep] = &[Ep::AsResDer, Ep::AsResBer];
const MFTC: &[Ep] = &[Ep::MftContentDer, Ep::MftContentBer];
const CRLTBS: &[Ep] = &[Ep::CrlTbsDer, Ep::CrlTbsBer];
const ROA: &[Ep] = &[Ep::RoaStrict, Ep::RoaRelaxed, Ep::SigObjStrict];
const ROA_RELAXED: &[Ep] = &[Ep::RoaRelaxed, Ep::SigObjRelaxed];
const MFT: &[Ep] = &[Ep::MftStrict, Ep::MftRelaxed, Ep::SigObjRelaxed];
const ASPA: &[Ep] = &[Ep::AspaStrict, Ep::AspaRelaxed];
const RTA: &[Ep] = &[Ep::RtaStrict, Ep::RtaRelaxed];
const CERT: &[Ep] = &[Ep::Cert];
const CSR: &[Ep] = &[Ep::CaCsr];
const IDCERT: &[Ep] = &[Ep::IdCert];
const SIGMSG: &[Ep] = &[Ep::SigMsgStrict, Ep::SigMsgRelaxed, Ep::ProvCms];
const PROV: &[Ep] = &[Ep::ProvCms];
const PUB: &[Ep] = &[Ep::PubCms];
const NO_CAP: usize = usize::MAX;

/// The RTA eContent children: [subjectKeys SET, resources SEQUENCE, alg, digest].
fn rta_content<'a>(f: &'a mut [T]) -> Option<&'a mut Vec<T>> {
    let lay = m::cms_layout(f)?;
    let ec = m::at_mut(f, &lay.econtent)?;
    let kids = ec.children_mut()?;
    kids.get_mut(0)?.children_mut()
}

pub static SHAPES: &[Shape] = &[
    //--- resources on their own
    Shape { name: "ipaddrblocks-v4-prefixes", recipe: "IPAddrBlocks { IPv4: SEQUENCE OF n /24 prefixes, every other one }", eps: IPRES, unit: 6, max_n: NO_CAP,
        build: |_, n, s| Some(der::seq(&[&ip_family(Flavour::V4, &ip_list(Flavour::V4, &v4_blocks(n, s)))])) },
    Shape { name: "ipaddrblocks-v6-ranges", recipe: "IPAddrBlocks { IPv6: SEQUENCE OF n address ranges of six addresses }", eps: IPRES, unit: 40, max_n: NO_CAP,
        build: |_, n, s| Some(der::seq(&[&ip_family(Flavour::V6, &ip_list(Flavour::V6, &v6_ranges(n, s)))])) },
    Shape { name: "ipaddrblocks-both-families", recipe: "IPAddrBlocks { IPv4: n/2 /24 prefixes, IPv6: n/2 /48 prefixes }", eps: IPRES, unit: 8, max_n: NO_CAP,
        build: |_, n, s| Some(der::seq(&[
            &ip_family(Flavour::V4, &ip_list(Flavour::V4, &v4_blocks(n / 2, s))),
            &ip_family(Flavour::V6, &ip_list(Flavour::V6, &v6_prefixes(n - n / 2, s))),
        ])) },
    Shape { name: "ipblocks-bare-v4-prefixes", recipe: "SEQUENCE OF n IPAddressOrRange (/24 prefixes), no family header", eps: IPRES, unit: 6, max_n: NO_CAP,
        build: |_, n, s| Some(ip_list(Flavour::V4, &v4_blocks(n, s))) },
    Shape { name: "asidentifiers-ids", recipe: "ASIdentifiers { asnum: SEQUENCE OF n single AS numbers, every other one }", eps: ASRES, unit: 5, max_n: NO_CAP,
        build: |_, n, s| Some(as_identifiers(&crate::c03::as_der(&as_ids(n, s), false))) },
    Shape { name: "asidentifiers-ranges", recipe: "ASIdentifiers { asnum: SEQUENCE OF n ranges of four AS numbers }", eps: ASRES, unit: 12, max_n: NO_CAP,
        build: |_, n, s| Some(as_identifiers(&crate::c03::as_der(&as_ranges(n, s), false))) },
    Shape { name: "asblocks-bare-ids", recipe: "SEQUENCE OF n ASIdOrRange (single AS numbers), no wrapper", eps: ASRES, unit: 5, max_n: NO_CAP,
        build: |_, n, s| Some(crate::c03::as_der(&as_ids(n, s), false)) },
    //--- manifest content, CRL body, names on their own
    Shape { name: "manifestcontent-files", recipe: "Manifest eContent with n FileAndHash entries (IA5String name, 32-octet hash)", eps: MFTC, unit: 56, max_n: NO_CAP,
        build: |_, n, s| Some(mft_econtent(n, s)) },
    Shape { name: "tbscertlist-revoked", recipe: "TBSCertList with n revokedCertificates entries (serial, UTCTime)", eps: CRLTBS, unit: 22, max_n: NO_CAP,
        build: |e, n, s| Some(crl_tbs(e.pool, n, s)) },
    Shape { name: "revokedcertificates-bare", recipe: "SEQUENCE OF n revoked entries (serial, UTCTime), no TBSCertList around it", eps: CRLTBS, unit: 22, max_n: NO_CAP,
        build: |_, n, s| Some(der::tlv(der::T_SEQUENCE, &revoked_entries(n, s))) },
    Shape { name: "name-rdns", recipe: "Name with n relative distinguished names (one commonName each)", eps: &[Ep::Name], unit: 22, max_n: NO_CAP,
        build: |_, n, s| Some(name_rdns(n, s)) },
    Shape { name: "name-attributes-in-one-rdn", recipe: "Name with one relative distinguished name of n attribute-value pairs", eps: &[Ep::Name], unit: 20, max_n: NO_CAP,
        build: |_, n, s| Some(name_atvs(n, s)) },
    //--- TAL
    Shape { name: "tal-uris", recipe: "TAL with n URI lines (https and rsync alternating) before the key", eps: &[Ep::Tal], unit: 42, max_n: NO_CAP,
        build: |e, n, s| tal_text(e.pool, n, 0, 64, s) },
    Shape { name: "tal-comment-lines", recipe: "TAL with n comment lines before the URIs", eps: &[Ep::Tal], unit: 58, max_n: NO_CAP,
        build: |e, n, s| tal_text(e.pool, 1, n, 64, s) },
    //--- ROA
    Shape { name: "roa-v4-addresses", recipe: "ROA whose IPv4 family lists n distinct /24 ROAIPAddress entries without maxLength (re-signed, EE certificate over 0/0)", eps: ROA, unit: 8, max_n: NO_CAP,
        build: |e, n, s| e.econtent("built/r.roa", roa_econtent(n, 0, false, s), true) },
    Shape { name: "roa-v6-addresses-maxlength", recipe: "ROA whose IPv6 family lists n distinct /48 ROAIPAddress entries with maxLength (re-signed, EE certificate over ::/0)", eps: ROA, unit: 14, max_n: NO_CAP,
        build: |e, n, s| e.econtent("built/r.roa", roa_econtent(0, n, true, s), true) },
    Shape { name: "roa-both-families", recipe: "ROA with n/2 IPv4 /24 and n/2 IPv6 /48 entries with maxLength (re-signed)", eps: ROA, unit: 13, max_n: NO_CAP,
        build: |e, n, s| e.econtent("built/r.roa", roa_econtent(n / 2, n - n / 2, true, s), true) },
    Shape { name: "roa-econtent-ber-segments", recipe: "ROA (n/8 IPv4 entries) whose eContent is a constructed OCTET STRING of n segments of 8 octets (BER; re-signed)", eps: ROA_RELAXED, unit: 10, max_n: NO_CAP,
        build: |e, n, s| {
            let content = roa_econtent(n, 0, false, s);
            e.edit("built/r.roa", |f| {
                let lay = m::cms_layout(f)?;
                let node = m::at_mut(f, &lay.econtent)?;
                node.tag = 0x24;
                node.len = LenForm::Min;
                node.body = Body::Cons(content.chunks(8).map(|c| T::leaf(0x04, c)).collect());
                Some(())
            })
        } },
    //--- ASPA (the decoder admits 16380 providers)
    Shape { name: "aspa-providers", recipe: "ASPA with n provider AS numbers in ascending order (re-signed)", eps: ASPA, unit: 5, max_n: 16380,
        build: |e, n, s| e.econtent("built/a.asa", aspa_econtent(n, s), false) },
    //--- manifest
    Shape { name: "manifest-files", recipe: "manifest listing n files (re-signed)", eps: MFT, unit: 56, max_n: NO_CAP,
        build: |e, n, s| e.econtent("built/ca.mft", mft_econtent(n, s), false) },
    //--- CRL
    Shape { name: "crl-revoked", recipe: "CRL with n revoked entries, signed by the fixed issuer", eps: &[Ep::Crl], unit: 22, max_n: NO_CAP,
        build: |e, n, s| Some(cms::x509_signed(&crl_tbs(e.pool, n, s), e.pool?.key(0))) },
    //--- certificates
    Shape { name: "cert-v4-blocks", recipe: "CA certificate whose IP resources extension lists n IPv4 /24 prefixes (re-signed)", eps: CERT, unit: 6, max_n: NO_CAP,
        build: |e, n, s| e.edit("built/ca.cer", |f| {
            let v = der::seq(&[&ip_family(Flavour::V4, &ip_list(Flavour::V4, &v4_blocks(n, s)))]);
            set_res_ext(f, &super::OID_IP_RES, v)
        }) },
    Shape { name: "cert-v6-ranges", recipe: "CA certificate whose IP resources extension lists n IPv6 ranges (re-signed)", eps: CERT, unit: 40, max_n: NO_CAP,
        build: |e, n, s| e.edit("built/ca.cer", |f| {
            let v = der::seq(&[&ip_family(Flavour::V6, &ip_list(Flavour::V6, &v6_ranges(n, s)))]);
            set_res_ext(f, &super::OID_IP_RES, v)
        }) },
    Shape { name: "cert-as-ranges", recipe: "CA certificate whose AS resources extension lists n AS ranges (re-signed)", eps: CERT, unit: 12, max_n: NO_CAP,
        build: |e, n, s| e.edit("built/ca.cer", |f| set_res_ext(f, &super::OID_AS_RES, as_identifiers(&crate::c03::as_der(&as_ranges(n, s), false)))) },
    Shape { name: "cert-unknown-extensions", recipe: "CA certificate with n further non-critical extensions of unknown type (re-signed)", eps: CERT, unit: 24, max_n: NO_CAP,
        build: |e, n, s| e.edit("built/ca.cer", |f| {
            ext_list(f, &[0])?.push(raw(unknown_extensions(n, s)));
            Some(())
        }) },
    Shape { name: "cert-sia-access-descriptions", recipe: "CA certificate whose SIA has n further access descriptions (unknown method / further rpkiManifest with https URI, alternating; re-signed)", eps: CERT, unit: 52, max_n: NO_CAP,
        build: |e, n, s| e.edit("built/ca.cer", |f| {
            let unknown = der::oid(&[1, 3, 6, 1, 5, 5, 7, 48, 99]);
            let mft = der::oid(&[1, 3, 6, 1, 5, 5, 7, 48, 10]);
            let ads = cat((0..n).map(|i| {
                let uri = format!("https://h{}.example.com/r/{:06}.mft", s % 10, i);
                der::seq(&[if i % 2 == 0 { &unknown } else { &mft }, &der::tlv(der::ctx_prim(6), uri.as_bytes())])
            }));
            ext_inner(f, OID_SIA)?.get_mut(0)?.children_mut()?.push(raw(ads));
            Some(())
        }) },
    Shape { name: "cert-aia-names", recipe: "CA certificate whose AIA caIssuers description carries n further https names (re-signed)", eps: CERT, unit: 40, max_n: NO_CAP,
        build: |e, n, s| e.edit("built/ca.cer", |f| {
            ext_inner(f, OID_AIA)?.get_mut(0)?.children_mut()?.get_mut(0)?.children_mut()?.push(raw(https_names(n, s)));
            Some(())
        }) },
    Shape { name: "cert-crldp-names", recipe: "CA certificate whose CRL distribution point carries n further https names (re-signed)", eps: CERT, unit: 40, max_n: NO_CAP,
        build: |e, n, s| e.edit("built/ca.cer", |f| {
            // CRLDistributionPoints { DistributionPoint { [0] { [0] fullName { names } } } }
            let dp = ext_inner(f, OID_CRLDP)?.get_mut(0)?.children_mut()?.get_mut(0)?;
            dp.children_mut()?.get_mut(0)?.children_mut()?.get_mut(0)?.children_mut()?.push(raw(https_names(n, s)));
            Some(())
        }) },
    Shape { name: "cert-policy-qualifiers", recipe: "CA certificate whose policy carries n CPS qualifiers (re-signed)", eps: CERT, unit: 48, max_n: NO_CAP,
        build: |e, n, s| e.edit("built/ca.cer", |f| {
            let cps = der::oid(&[1, 3, 6, 1, 5, 5, 7, 2, 1]);
            let q = cat((0..n).map(|i| der::seq(&[&cps, &der::ia5(format!("https://h{}.example.com/cps/{:06}", s % 10, i).as_bytes())])));
            ext_inner(f, OID_POLICIES)?.get_mut(0)?.children_mut()?.get_mut(0)?.children_mut()?.push(raw(der::tlv(der::T_SEQUENCE, &q)));
            Some(())
        }) },
    Shape { name: "cert-subject-rdns", recipe: "CA certificate whose subject has n relative distinguished names (re-signed)", eps: CERT, unit: 22, max_n: NO_CAP,
        build: |e, n, s| e.edit("built/ca.cer", |f| {
            *m::at_mut(f, &[0, 0, 5])? = raw(name_rdns(n, s));
            Some(())
        }) },
    Shape { name: "routercert-eku-purposes", recipe: "router certificate whose extended key usage lists n key purposes after id-kp-bgpsec-router (re-signed)", eps: CERT, unit: 14, max_n: NO_CAP,
        build: |e, n, s| e.edit("built/router.cer", |f| {
            let more = cat((0..n as u64).map(|i| der::oid(&[1, 3, 6, 1, 4, 1, 55555, 2 + s % 50, i])));
            ext_inner(f, OID_EKU)?.get_mut(0)?.children_mut()?.push(raw(more));
            Some(())
        }) },
    //--- CSR, identity certificate
    Shape { name: "csr-sia-access-descriptions", recipe: "CA certificate request whose requested SIA has n further access descriptions (re-signed)", eps: CSR, unit: 52, max_n: NO_CAP,
        build: |e, n, s| e.edit("built/ca.csr", |f| {
            let unknown = der::oid(&[1, 3, 6, 1, 5, 5, 7, 48, 99]);
            let ads = cat((0..n).map(|i| der::seq(&[&unknown, &der::tlv(der::ctx_prim(6), format!("https://h{}.example.com/r/{:06}.mft", s % 10, i).as_bytes())])));
            ext_inner(f, OID_SIA)?.get_mut(0)?.children_mut()?.push(raw(ads));
            Some(())
        }) },
    Shape { name: "csr-subject-rdns", recipe: "CA certificate request whose subject has n relative distinguished names (re-signed)", eps: CSR, unit: 22, max_n: NO_CAP,
        build: |e, n, s| e.edit("built/ca.csr", |f| {
            *m::at_mut(f, &[0, 0, 1])? = raw(name_rdns(n, s));
            Some(())
        }) },
    Shape { name: "idcert-unknown-extensions", recipe: "identity certificate with n further extensions of unknown type (re-signed)", eps: IDCERT, unit: 24, max_n: NO_CAP,
        build: |e, n, s| e.edit("built/id-ee.cer", |f| {
            ext_list(f, &[0])?.push(raw(unknown_extensions(n, s)));
            Some(())
        }) },
    Shape { name: "idcert-subject-rdns", recipe: "identity certificate whose subject has n relative distinguished names (re-signed)", eps: IDCERT, unit: 22, max_n: NO_CAP,
        build: |e, n, s| e.edit("built/id-ee.cer", |f| {
            *m::at_mut(f, &[0, 0, 5])? = raw(name_rdns(n, s));
            Some(())
        }) },
    //--- signed attributes (limit: 65535 octets); signed protocol messages skip unknown ones
    Shape { name: "sigmsg-unknown-signed-attributes", recipe: "signed protocol message with n further signed attributes of unknown type (re-signed)", eps: SIGMSG, unit: 21, max_n: 2900,
        build: |e, n, s| e.edit("built/prov-list.cms", |f| {
            let lay = m::cms_layout(f)?;
            let mut p = lay.signer_info.clone();
            p.push(3);
            let more = cat((0..n as u64).map(|i| der::seq(&[&der::oid(&[1, 2, 840, 113549, 1, 9, 77, 1 + s % 20, i]), &der::tlv(der::T_SET, &der::null())])));
            m::at_mut(f, &p)?.children_mut()?.push(raw(more));
            Some(())
        }) },
    //--- RTA
    Shape { name: "rta-subject-keys", recipe: "RTA whose content lists n subject key identifiers", eps: RTA, unit: 22, max_n: NO_CAP,
        build: |e, n, s| e.edit("built/plain.rta", |f| {
            let keys = cat((0..n).map(|i| {
                let mut k = [0u8; 20];
                k[..8].copy_from_slice(&scr(i, n).to_be_bytes());
                k[19] = (s % 200) as u8;
                der::octets(&k)
            }));
            *rta_content(f)?.get_mut(0)? = raw(der::tlv(der::T_SET, &keys));
            Some(())
        }) },
    Shape { name: "rta-as-and-ip-blocks", recipe: "RTA whose content lists n/2 AS ranges and n/2 IPv4 /24 prefixes", eps: RTA, unit: 9, max_n: NO_CAP,
        build: |e, n, s| e.edit("built/plain.rta", |f| {
            let asr = der::tlv(0xA0, &crate::c03::as_der(&as_ranges(n / 2, s), false));
            let ipr = der::tlv(0xA1, &der::seq(&[&ip_family(Flavour::V4, &ip_list(Flavour::V4, &v4_blocks(n - n / 2, s)))]));
            *rta_content(f)?.get_mut(1)? = raw(der::seq(&[&asr, &ipr]));
            Some(())
        }) },
    Shape { name: "rta-certificates", recipe: "RTA whose certificate bag holds n copies of the EE certificate", eps: RTA, unit: 1300, max_n: NO_CAP,
        build: |e, n, _| e.edit("built/plain.rta", |f| {
            let bag = m::at_mut(f, &[0, 1, 0, 3])?.children_mut()?;
            let one = bag.first()?.clone();
            for _ in 1..n {
                bag.push(one.clone());
            }
            Some(())
        }) },
    Shape { name: "rta-crls", recipe: "RTA whose CRL bag holds n copies of the CRL", eps: RTA, unit: 600, max_n: NO_CAP,
        build: |e, n, _| e.edit("built/with-ca.rta", |f| {
            let bag = m::at_mut(f, &[0, 1, 0, 4])?;
            if bag.tag != 0xA1 {
                return None;
            }
            let bag = bag.children_mut()?;
            let one = bag.first()?.clone();
            for _ in 1..n {
                bag.push(one.clone());
            }
            Some(())
        }) },
    Shape { name: "rta-signer-infos", recipe: "RTA with n copies of its SignerInfo", eps: RTA, unit: 400, max_n: NO_CAP,
        build: |e, n, _| e.edit("built/plain.rta", |f| {
            let lay = m::cms_layout(f)?;
            let mut p = lay.signer_info.clone();
            p.pop();
            let set = m::at_mut(f, &p)?.children_mut()?;
            let one = set.first()?.clone();
            for _ in 1..n {
                set.push(one.clone());
            }
            Some(())
        }) },
    //--- signed protocol messages
    Shape { name: "sigmsg-crl-revoked", recipe: "signed protocol message whose CRL lists n revoked entries (re-signed)", eps: SIGMSG, unit: 22, max_n: NO_CAP,
        build: |e, n, s| e.edit("built/prov-list-revoked.cms", |f| {
            let lay = m::cms_layout(f)?;
            let mut p = lay.crl?;
            p.push(0);
            let kids = m::at_mut(f, &p)?.children_mut()?;
            if kids.len() < 6 || kids[5].tag != 0x30 {
                return None;
            }
            kids[5] = raw(der::tlv(der::T_SEQUENCE, &revoked_entries(n, s)));
            Some(())
        }) },
    Shape { name: "sigmsg-crl-unknown-extensions", recipe: "signed protocol message whose CRL carries n further extensions of unknown type (re-signed)", eps: SIGMSG, unit: 24, max_n: NO_CAP,
        build: |e, n, s| e.edit("built/prov-list-revoked.cms", |f| {
            let lay = m::cms_layout(f)?;
            let mut p = lay.crl?;
            p.push(0);
            let kids = m::at_mut(f, &p)?.children_mut()?;
            let x = kids.iter_mut().find(|k| k.tag == 0xA0)?;
            x.children_mut()?.get_mut(0)?.children_mut()?.push(raw(unknown_extensions(n, s)));
            Some(())
        }) },
    Shape { name: "provisioning-list-response-as-set", recipe: "RFC 6492 list_response with one class whose resource_set_as names n AS numbers (re-signed)", eps: PROV, unit: 6, max_n: NO_CAP,
        build: |e, n, s| e.econtent("built/prov-list.cms", prov_list_response(e, 1, n, 1, 1, s)?, false) },
    Shape { name: "provisioning-list-response-ipv4-set", recipe: "RFC 6492 list_response with one class whose resource_set_ipv4 names n /24 prefixes (re-signed)", eps: PROV, unit: 13, max_n: NO_CAP,
        build: |e, n, s| e.econtent("built/prov-list.cms", prov_list_response(e, 1, 1, n, 1, s)?, false) },
    Shape { name: "provisioning-list-response-classes", recipe: "RFC 6492 list_response with n classes (one issued certificate and an issuer each; re-signed)", eps: PROV, unit: 3900, max_n: NO_CAP,
        build: |e, n, s| e.econtent("built/prov-list.cms", prov_list_response(e, n, 1, 1, 1, s)?, false) },
    Shape { name: "provisioning-list-response-issued-certificates", recipe: "RFC 6492 list_response with one class holding n issued certificates (re-signed)", eps: PROV, unit: 1900, max_n: NO_CAP,
        build: |e, n, s| e.econtent("built/prov-list.cms", prov_list_response(e, 1, 1, 1, n, s)?, false) },
    Shape { name: "publication-list-reply-elements", recipe: "RFC 8181 list reply with n <list/> elements (re-signed)", eps: PUB, unit: 122, max_n: NO_CAP,
        build: |e, n, s| e.econtent("built/pub-list.cms", pub_list_reply(n, s), false) },
    Shape { name: "publication-delta-elements", recipe: "RFC 8181 query with n <publish/> / <withdraw/> elements (re-signed)", eps: PUB, unit: 120, max_n: NO_CAP,
        build: |e, n, s| e.econtent("built/pub-list.cms", pub_delta(n, s), false) },
];

//------------ Measurement ----------------------------------------------------

const CPU_FACTOR: u64 = 8;
const CPU_FLOOR_NS: u64 = 1_000_000;
const HEAP_FACTOR: u64 = 8;
const HEAP_FLOOR: u64 = 256 * 1024;

#[derive(Clone, Copy, PartialEq, Eq)]
enum Phase {
    Decode,
    Total,
}

impl Phase {
    fn name(self) -> &'static str {
        match self {
            Phase::Decode => "decode",
            Phase::Total => "decode+sweep",
        }
    }
}

/// One run of the phase: (CPU ns, peak heap, produced a value / did not panic).
fn run_phase(mon: &Mon, phase: Phase, ep: Ep, data: &[u8]) -> (u64, u64, bool) {
    match phase {
        Phase::Decode => {
            let base = window_start();
            let t0 = thread_cpu_ns();
            EVAL_STARTED_AT.store(t0, Ordering::Relaxed);
            let res = catch2(|| decode_only(ep, data));
            EVAL_STARTED_AT.store(0, Ordering::Relaxed);
            let t1 = thread_cpu_ns();
            let (peak, _) = window_peak(base);
            (t1.saturating_sub(t0), peak, res.unwrap_or(false))
        }
        Phase::Total => {
            let c = Case { ep, data, mutator: "scale", seed: "generated" };
            let (res, peak, cpu) = mon.measure(&c);
            (cpu, peak, res.map(|o| o.ok).unwrap_or(false))
        }
    }
}

fn min_of(mon: &Mon, phase: Phase, ep: Ep, data: &[u8], reps: usize) -> (u64, u64) {
    let mut best = u64::MAX;
    let mut peak = 0;
    for _ in 0..reps.max(1) {
        let (t, p, _) = run_phase(mon, phase, ep, data);
        best = best.min(t);
        peak = p;
        if t > 3_000_000_000 {
            break; // seconds per run: one is enough to know
        }
    }
    (best, peak)
}

struct Sized<'a> {
    n: usize,
    data: &'a [u8],
}

/// The two laws for one (shape, entry point, phase, pair of sizes).
/// Returns (t_small, t_large) for the caller's bookkeeping.
#[allow(clippy::too_many_arguments)]
fn check_pair(ctx: &mut Ctx, mon: &Mon, shape: &Shape, ep: Ep, phase: Phase, small: &Sized, large: &Sized, salt: u64, reps: (usize, usize)) -> (u64, u64) {
    // warm the caches and the allocator
    let _ = run_phase(mon, phase, ep, small.data);
    let (mut ts, hs) = min_of(mon, phase, ep, small.data, reps.0);
    let (mut tl, hl) = min_of(mon, phase, ep, large.data, reps.1);
    let describe = |ts: u64, tl: u64| {
        json!({
            "shape": shape.name,
            "entries": shape.recipe,
            "ep": ep.name(),
            "phase": phase.name(),
            "n_small": small.n, "len_small": small.data.len(), "fnv64_small": format!("{:016x}", fnv64(small.data)),
            "n_large": large.n, "len_large": large.data.len(), "fnv64_large": format!("{:016x}", fnv64(large.data)),
            "cpu_ns_small(min)": ts, "cpu_ns_large(min)": tl,
            "cpu_factor_x100": tl.saturating_mul(100) / ts.max(1),
            "size_factor_x100": large.data.len() as u64 * 100 / small.data.len().max(1) as u64,
            "peak_heap_small": hs, "peak_heap_large": hl,
            "small_input_head_hex": hex(&small.data[..small.data.len().min(160)]),
            "small_input_hex": if small.data.len() <= 150_000 { hex(small.data) } else { String::new() },
            "replay_case": {"scale": shape.name, "ep": ep.name(), "n": small.n, "factor": large.n / small.n.max(1), "salt": salt},
            "how_to_replay": "vcheck C04 --case <file holding replay_case> regenerates both inputs (n and factor*n entries) and measures again",
        })
    };
    // heap: deterministic, one confirmation run
    if hl > HEAP_FACTOR * hs + HEAP_FLOOR {
        let (_, hs2, _) = run_phase(mon, phase, ep, small.data);
        let (_, hl2, _) = run_phase(mon, phase, ep, large.data);
        if hl2 > HEAP_FACTOR * hs2 + HEAP_FLOOR {
            ctx.violation(
                &format!("C04:superlinear-heap:{}:{}:{}", phase.name(), ep.name(), shape.name),
                &format!(
                    "peak heap of {} grows faster than the input: {} entries ({} octets) need {} bytes, {} entries ({} octets) need {} bytes — more than {} times as much (+{} KiB) for {}.{:02} times the input [{}]",
                    phase.name(), small.n, small.data.len(), hs2, large.n, large.data.len(), hl2, HEAP_FACTOR, HEAP_FLOOR / 1024,
                    large.data.len() / small.data.len().max(1), (large.data.len() * 100 / small.data.len().max(1)) % 100, shape.recipe
                ),
                describe(ts, tl),
            );
        }
    }
    // CPU
    let broken = |ts: u64, tl: u64| tl > CPU_FACTOR * ts + CPU_FLOOR_NS;
    if broken(ts, tl) {
        let mut over = 0;
        let mut cleared = false;
        let mut noisy = 0;
        for attempt in 0..12u64 {
            std::thread::sleep(std::time::Duration::from_millis(5 * attempt));
            let before = spin_ns();
            let (s_i, _, _) = run_phase(mon, phase, ep, small.data);
            let mid = spin_ns();
            let (l_i, _, _) = run_phase(mon, phase, ep, large.data);
            let after = spin_ns();
            // a lower small time is always closer to the truth
            ts = ts.min(s_i);
            let steady = before <= 2 * mon.spin_base && mid <= 2 * mon.spin_base && after <= 2 * mon.spin_base;
            if !broken(ts, l_i) {
                // one run of the large input within the law is enough: the clock only ever over-counts
                tl = tl.min(l_i);
                cleared = true;
                break;
            }
            if !steady {
                noisy += 1;
                continue;
            }
            tl = tl.min(l_i);
            over += 1;
            if over == 3 {
                break;
            }
        }
        if !cleared && over == 3 && broken(ts, tl) {
            let mut d = describe(ts, tl);
            if let Some(o) = d.as_object_mut() {
                o.insert("noisy_reruns_discarded".into(), json!(noisy));
            }
            ctx.violation(
                &format!("C04:superlinear-cpu:{}:{}:{}", phase.name(), ep.name(), shape.name),
                &format!(
                    "CPU time of {} through {} grows faster than the input: {} entries ({} octets) take {} us, {} entries ({} octets) take {} us — {}.{:02} times as long for {}.{:02} times the input (a fixed multiple of the input size allows about 4, the law checked is <= {} times + {} ms; minima over repeated runs, confirmed by three further runs next to a steady clock reference) [{}]",
                    phase.name(), ep.name(), small.n, small.data.len(), ts / 1000, large.n, large.data.len(), tl / 1000,
                    tl / ts.max(1), (tl.saturating_mul(100) / ts.max(1)) % 100,
                    large.data.len() / small.data.len().max(1), (large.data.len() * 100 / small.data.len().max(1)) % 100,
                    CPU_FACTOR, CPU_FLOOR_NS / 1_000_000, shape.recipe
                ),
                d,
            );
        } else if cleared {
            ctx.obs("scale:cpu_law_exceeded_once_then_cleared(clock_noise)", 1);
        } else {
            ctx.obs("scale:cpu_law_exceeded_but_clock_too_noisy_to_confirm(not_a_verdict)", 1);
        }
    }
    if std::env::var_os("C04_SCALE_DEBUG").is_some() {
        // experiments only; never set by the driver
        eprintln!(
            "SCALE {:<48} {:<18} {:<12} n={:>7}/{:>7} len={:>8}/{:>8} t_us={:>8}/{:>8} x{:>5.2} heap={:>9}/{:>9} x{:>5.2}",
            shape.name, ep.name(), phase.name(), small.n, large.n, small.data.len(), large.data.len(), ts / 1000, tl / 1000,
            tl as f64 / ts.max(1) as f64, hs, hl, hl as f64 / hs.max(1) as f64
        );
    }
    let key = match phase {
        Phase::Decode => "scale:largest_cpu_factor_x100_decode(4x_input)",
        Phase::Total => "scale:largest_cpu_factor_x100_decode+sweep(4x_input)",
    };
    if tl > CPU_FLOOR_NS {
        // factors of sub-millisecond runs are clock granularity, not behaviour
        ctx.obs_max(key, tl.saturating_mul(100) / ts.max(1));
    }
    ctx.obs_max("scale:largest_heap_factor_x100(4x_input)", hl.saturating_mul(100) / hs.max(1));
    if ctx.wants_sample("scaling: one shape at n and 4n entries") {
        ctx.sample("scaling: one shape at n and 4n entries", || {
            json!({"shape": shape.name, "entries": shape.recipe, "ep": ep.name(), "phase": phase.name(),
                   "n": [small.n, large.n], "input_octets": [small.data.len(), large.data.len()],
                   "cpu_ns(min)": [ts, tl], "peak_heap": [hs, hl],
                   "small_input_head_hex": hex(&small.data[..small.data.len().min(96)])})
        });
    }
    (ts, tl)
}

/// Sizes (numbers of entries) for a shape: n for ~100 kB, 4n, 16n and, in
/// the thorough tier, 64n (~6.4 MB) — as far as the decoder admits them.
fn sizes(shape: &Shape, tier: Tier, salt: u64) -> Vec<usize> {
    let steps = if tier == Tier::Thorough { 4 } else { 3 };
    let top_factor = 4usize.pow(steps as u32 - 1);
    // n varies a little with the seed so that runs do not all sit on the same sizes
    let mut n = (100_000 / shape.unit.max(1)).max(8);
    n += (salt % (n as u64 / 8).max(1)) as usize;
    if shape.max_n != NO_CAP {
        n = n.min(shape.max_n / top_factor);
    }
    (0..steps).map(|k| n * 4usize.pow(k as u32)).collect()
}

fn salt_for(seed: u64, shape: &Shape) -> u64 {
    Rng::derive(seed, &["C04", "scale", shape.name], &[]).next_u64() >> 1
}

/// The inputs of one shape, built when first asked for (the largest size is
/// often not needed) and shared by the entry points of the shape.
struct Inputs<'a> {
    shape: &'a Shape,
    salt: u64,
    ns: Vec<usize>,
    data: Vec<Option<Vec<u8>>>,
    failed: Vec<bool>,
}

impl<'a> Inputs<'a> {
    fn new(shape: &'a Shape, salt: u64, ns: Vec<usize>) -> Self {
        let k = ns.len();
        Inputs { shape, salt, ns, data: vec![None; k], failed: vec![false; k] }
    }

    fn ensure(&mut self, env: &Env, k: usize) -> bool {
        if self.data[k].is_none() && !self.failed[k] {
            let (shape, n, salt) = (self.shape, self.ns[k], self.salt);
            match catch2(|| (shape.build)(env, n, salt)) {
                Ok(Some(d)) if !d.is_empty() => self.data[k] = Some(d),
                _ => self.failed[k] = true,
            }
        }
        self.data[k].is_some()
    }
}

/// One (shape, entry point): ordinary evaluation of each size reached, then
/// the scaling laws between consecutive sizes. The next size is only entered
/// while the law holds and the predicted cost stays below `limit_ns`.
fn run_one(ctx: &mut Ctx, mon: &mut Mon, env: &Env, inp: &mut Inputs, ep: Ep, timing: bool) {
    let shape = inp.shape;
    let salt = inp.salt;
    let label = format!("scale:{}", shape.name);
    let debug = std::env::var_os("C04_SCALE_DEBUG").is_some();
    let reps = if ctx.tier == Tier::Thorough { (7, 4) } else { (5, 3) };
    let limit_ns: u64 = if ctx.tier == Tier::Thorough { 4_000_000_000 } else { 1_000_000_000 };
    let mut evaluated = vec![false; inp.ns.len()];
    let mut reached = false;
    let steps = if timing { inp.ns.len() } else { 1 };
    for k in 0..steps {
        // the ordinary evaluation of sizes k and k + 1 (each once)
        let upto = if timing { (k + 1).min(inp.ns.len() - 1) } else { k };
        for j in k..=upto {
            if evaluated[j] {
                continue;
            }
            if !inp.ensure(env, j) {
                if j == 0 {
                    ctx.notes.push(format!("C04 scaling: shape {} could not be built (seed object missing?)", shape.name));
                    ctx.obs("scale:shapes_not_built", 1);
                }
                return;
            }
            let data = inp.data[j].as_deref().unwrap_or(&[]);
            let out = mon.eval(ctx, &Case { ep, data, mutator: &label, seed: "generated" });
            evaluated[j] = true;
            ctx.obs_max("scale:largest_input_octets", data.len() as u64);
            let ok = out.as_ref().map(|o| o.ok).unwrap_or(false);
            if debug {
                if let Some(o) = &out {
                    if !o.ok {
                        eprintln!("SCALE {} {} refused: {} at {}", shape.name, ep.name(), o.class, o.err_pos);
                    }
                }
            }
            if !ok {
                // the decoder refuses the shape (or panicked, which is reported): nothing to time, not a verdict
                ctx.obs("scale:pairs_refused_by_the_decoder(not_timed)", 1);
                ctx.notes.push(format!("C04 scaling: {} refuses shape {} at {} entries; not timed", ep.name(), shape.name, inp.ns[j]));
                return;
            }
        }
        if !reached {
            reached = true;
            ctx.obs("scale:pairs_accepted(shape x entry point)", 1);
            ctx.obs(&format!("scale:region_reached:{}", shape.name), 1);
        }
        if !timing || k + 1 >= inp.ns.len() {
            return;
        }
        let small = Sized { n: inp.ns[k], data: inp.data[k].as_deref().unwrap_or(&[]) };
        let large = Sized { n: inp.ns[k + 1], data: inp.data[k + 1].as_deref().unwrap_or(&[]) };
        let ratio = large.data.len() as f64 / small.data.len().max(1) as f64;
        if !(2.5..=4.5).contains(&ratio) {
            // fixed parts dominate: the pair says nothing about growth
            ctx.obs("scale:pairs_skipped_size_factor_outside_2.5..4.5", 1);
            continue;
        }
        let before = ctx.violation_count();
        check_pair(ctx, mon, shape, ep, Phase::Decode, &small, &large, salt, reps);
        let (ts, tl) = check_pair(ctx, mon, shape, ep, Phase::Total, &small, &large, salt, reps);
        ctx.evals(2);
        ctx.obs("scale:size_pairs_compared(shape x entry point x step)", 1);
        ctx.obs(&format!("scale:size_pairs_compared:largest_of_about_{}", match large.data.len() { 0..=199_999 => "100kB", 200_000..=799_999 => "400kB", 800_000..=3_199_999 => "1.6MB", _ => "6.4MB" }), 1);
        ctx.sig(&format!("scale|{}|{}|step{}", shape.name, ep.name(), k + 1));
        if k + 2 < inp.ns.len() {
            let growth = (tl / ts.max(1)).max(4);
            if ctx.violation_count() > before {
                ctx.obs("scale:next_size_not_entered(law_already_broken)", 1);
                return;
            }
            if tl.saturating_mul(growth) > limit_ns {
                ctx.obs("scale:next_size_not_entered(predicted_cpu_over_the_tier_limit)", 1);
                return;
            }
        }
    }
}

/// The scaling stage (native: with timing; ASan: the smallest inputs only).
pub(super) fn run_scaling(ctx: &mut Ctx, mon: &mut Mon, env: &Env) {
    let timing = ctx.stage == Stage::Native;
    let only = std::env::var("C04_SCALE_SHAPE").ok(); // experiments only; never set by the driver
    let mut idx = 0u64;
    for shape in SHAPES {
        if let Some(o) = &only {
            if !shape.name.contains(o.as_str()) {
                continue;
            }
        }
        let mine: Vec<Ep> = shape
            .eps
            .iter()
            .copied()
            .filter(|_| {
                idx += 1;
                // offset: the first shards already carry the deep-nesting children
                ctx.mine(idx + 5)
            })
            .collect();
        if mine.is_empty() {
            continue;
        }
        let salt = salt_for(ctx.seed, shape);
        let mut inp = Inputs::new(shape, salt, sizes(shape, ctx.tier, salt));
        for ep in mine {
            run_one(ctx, mon, env, &mut inp, ep, timing);
            mon.flush(ctx);
        }
    }
    ctx.obs_max("scale:shapes_defined", SHAPES.len() as u64);
}

/// Literal case `{"scale": shape, "ep": entry point, "n": entries, "factor": 4, "salt": s}`.
pub(super) fn run_scale_case(ctx: &mut Ctx, mon: &mut Mon, env: &Env, case: &Value) {
    let name = case["scale"].as_str().unwrap_or("");
    let Some(shape) = SHAPES.iter().find(|s| s.name == name) else {
        ctx.notes.push(format!("C04: unknown scaling shape {:?}", name));
        return;
    };
    let Some(ep) = Ep::from_name(case["ep"].as_str().unwrap_or("")) else {
        ctx.notes.push("C04: scaling case without a known entry point".into());
        return;
    };
    let n = case["n"].as_u64().unwrap_or(0) as usize;
    let factor = case["factor"].as_u64().unwrap_or(4).max(2) as usize;
    let salt = case["salt"].as_u64().unwrap_or_else(|| salt_for(ctx.seed, shape));
    let mut inp = Inputs::new(shape, salt, vec![n, n * factor]);
    run_one(ctx, mon, env, &mut inp, ep, true);
    ctx.sig("replay");
}
