//! Counting allocator: live and peak heap bytes of the current thread inside
//! a measurement window. Used by C04 / C09 to bound memory per input.

use std::alloc::{GlobalAlloc, Layout, System};
use std::cell::Cell;

pub struct CountingAlloc;

thread_local! {
    static LIVE: Cell<isize> = const { Cell::new(0) };
    static PEAK: Cell<isize> = const { Cell::new(0) };
    static ALLOCS: Cell<u64> = const { Cell::new(0) };
}

#[inline]
fn add(n: isize) {
    // try_with: the allocator can be called during TLS teardown
    let _ = LIVE.try_with(|l| {
        let v = l.get() + n;
        l.set(v);
        if n > 0 {
            let _ = PEAK.try_with(|p| {
                if v > p.get() {
                    p.set(v)
                }
            });
            let _ = ALLOCS.try_with(|a| a.set(a.get() + 1));
        }
    });
}

unsafe impl GlobalAlloc for CountingAlloc {
    unsafe fn alloc(&self, layout: Layout) -> *mut u8 {
        let p = System.alloc(layout);
        if !p.is_null() {
            add(layout.size() as isize);
        }
        p
    }
    unsafe fn dealloc(&self, ptr: *mut u8, layout: Layout) {
        System.dealloc(ptr, layout);
        add(-(layout.size() as isize));
    }
    unsafe fn alloc_zeroed(&self, layout: Layout) -> *mut u8 {
        let p = System.alloc_zeroed(layout);
        if !p.is_null() {
            add(layout.size() as isize);
        }
        p
    }
    unsafe fn realloc(&self, ptr: *mut u8, layout: Layout, new_size: usize) -> *mut u8 {
        let p = System.realloc(ptr, layout, new_size);
        if !p.is_null() {
            add(new_size as isize - layout.size() as isize);
        }
        p
    }
}

/// Starts a window: peak := live. Returns the baseline.
pub fn window_start() -> isize {
    let live = LIVE.with(|l| l.get());
    PEAK.with(|p| p.set(live));
    ALLOCS.with(|a| a.set(0));
    live
}

/// Peak bytes above the baseline since `window_start`, and allocation count.
pub fn window_peak(baseline: isize) -> (u64, u64) {
    let peak = PEAK.with(|p| p.get());
    ((peak - baseline).max(0) as u64, ALLOCS.with(|a| a.get()))
}

/// CPU time of the calling thread in nanoseconds.
pub fn thread_cpu_ns() -> u64 {
    let mut ts = libc::timespec { tv_sec: 0, tv_nsec: 0 };
    unsafe {
        libc::clock_gettime(libc::CLOCK_THREAD_CPUTIME_ID, &mut ts);
    }
    ts.tv_sec as u64 * 1_000_000_000 + ts.tv_nsec as u64
}
