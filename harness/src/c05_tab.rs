//! C05 — accessor tables.
//!
//! One row per public accessor / iterator of each object type, written by
//! hand from the public API (`pub fn` list of cert.rs, crl.rs, manifest.rs,
//! roa.rs, aspa.rs, csr.rs, idcert.rs, sigmsg.rs). A row renders the answer
//! of the accessor into a *semantic* string: Display / Debug of leaf values,
//! iterators collected element by element, nested `encode_ref` encodings as
//! hex. Whole-struct `Debug` of types that keep captured sub-encodings is not
//! used (the internal byte layout is not an accessor answer).
//!
//! `compare` evaluates every row on the built value and on its decoded twin
//! under `catch_unwind` and reports per row: panic on either side, or
//! different answers. `cross` rows use the type's own `PartialEq` across the
//! two values.
//!
//! A new public accessor that is missing here is a review item: the list of
//! covered accessors is in each `*_rows` function, in source order.

use super::c05_sink as sink;
use crate::core::{catch, panic_location, Ctx};
use bcder::encode::Values;
use bcder::Mode;
use rpki::ca::csr::RpkiCaCsr;
use rpki::ca::idcert::{IdCert, TbsIdCert};
use rpki::ca::sigmsg::SignedMessage;
use rpki::repository::aspa::Aspa;
use rpki::repository::cert::{Cert, ResourceCert, TbsCert};
use rpki::repository::crl::Crl;
use rpki::repository::manifest::Manifest;
use rpki::repository::resources::{AsResources, IpResources};
use rpki::repository::roa::{Roa, RoaIpAddresses};
use rpki::repository::x509::{Name, Serial, Time, Validity};
use rpki::uri;
use serde_json::{json, Value};

pub type Row<T> = (String, Box<dyn Fn(&T) -> String>);
pub type Cross<T> = (String, Box<dyn Fn(&T, &T) -> bool>);

/// A *state* of a value: something the public API lets a holder of the
/// value do to it (or to a copy of it) that must not change any accessor
/// answer — cloning, switching on an internal cache, storing it in a
/// container that does so, sending it through its own encoder and decoder
/// again. `Err` = the state could not be reached (recorded, not judged).
pub type State<T> = (String, Box<dyn Fn(&T) -> Result<T, String>>);

pub struct Table<T> {
    pub kind: &'static str,
    pub rows: Vec<Row<T>>,
    pub cross: Vec<Cross<T>>,
    pub states: Vec<State<T>>,
    /// The structural encoders of both values streamed into part-writing and
    /// refusing sinks (`c05_sink`); run when the first pass agreed.
    pub streams: Option<Streams<T>>,
}

pub type Streams<T> = fn(&mut Ctx, &str, &T, &T, &dyn Fn() -> Value);

fn state<T, F: Fn(&T) -> Result<T, String> + 'static>(name: &str, f: F) -> State<T> {
    (name.to_string(), Box::new(f))
}

fn serde_round_trip<T: serde::Serialize + serde::de::DeserializeOwned>(v: &T) -> Result<T, String> {
    let js = serde_json::to_string(v).map_err(|e| e.to_string())?;
    serde_json::from_str(&js).map_err(|e| e.to_string())
}

fn row<T, F: Fn(&T) -> String + 'static>(name: &str, f: F) -> Row<T> {
    (name.to_string(), Box::new(f))
}

fn cross<T, F: Fn(&T, &T) -> bool + 'static>(name: &str, f: F) -> Cross<T> {
    (name.to_string(), Box::new(f))
}

/// Lifts rows over an inner type to rows over an outer type.
fn lift<O: 'static, I: 'static>(prefix: &str, rows: Vec<Row<I>>, get: fn(&O) -> &I) -> Vec<Row<O>> {
    rows.into_iter()
        .map(|(name, f)| {
            let r: Row<O> = (format!("{}.{}", prefix, name), Box::new(move |o: &O| f(get(o))));
            r
        })
        .collect()
}

//------------ rendering helpers --------------------------------------------

/// Lower-case hex (table driven; the renderings of large objects are long).
pub fn hex(data: &[u8]) -> String {
    const D: &[u8; 16] = b"0123456789abcdef";
    let mut s = String::with_capacity(data.len() * 2);
    for b in data {
        s.push(D[(b >> 4) as usize] as char);
        s.push(D[(b & 15) as usize] as char);
    }
    s
}

pub fn der<V: Values>(v: V) -> String {
    hex(v.to_captured(Mode::Der).as_slice())
}

fn t(x: Time) -> String {
    // seconds since the epoch plus the sub-second part: two values that
    // print the same must be the same instant
    format!("{}.{:09}", x.timestamp(), x.timestamp_subsec_nanos())
}

fn val(v: Validity) -> String {
    format!("{}..{}", t(v.not_before()), t(v.not_after()))
}

fn name(n: &Name) -> String {
    der(n.encode_ref())
}

fn serial(s: Serial) -> String {
    format!("{} [{}]", s, hex(&s.into_array()))
}

fn rsync(u: Option<&uri::Rsync>) -> String {
    match u {
        Some(u) => format!(
            "{} authority={} module={} path={} dir={}",
            u.as_str(),
            u.authority(),
            u.module_name(),
            u.path(),
            u.path_is_dir()
        ),
        None => "-".into(),
    }
}

fn https(u: Option<&uri::Https>) -> String {
    match u {
        Some(u) => format!("{} authority={} path={}", u.as_str(), u.authority(), u.path()),
        None => "-".into(),
    }
}

pub fn ipres(r: &IpResources) -> String {
    if r.is_inherited() {
        return "inherit".into();
    }
    if !r.is_present() {
        return "missing".into();
    }
    match r.to_blocks() {
        Ok(b) => {
            let v: Vec<String> = b.iter().map(|b| format!("{:x}-{:x}", b.min().to_bits(), b.max().to_bits())).collect();
            format!("blocks[{}] {}", v.len(), v.join(","))
        }
        Err(_) => "to_blocks-error".into(),
    }
}

pub fn asres(r: &AsResources) -> String {
    if r.is_inherited() {
        return "inherit".into();
    }
    if !r.is_present() {
        return "missing".into();
    }
    match r.to_blocks() {
        Ok(b) => {
            let v: Vec<String> = b.iter().map(|b| format!("{}-{}", b.min().into_u32(), b.max().into_u32())).collect();
            format!("blocks[{}] {}", v.len(), v.join(","))
        }
        Err(_) => "to_blocks-error".into(),
    }
}

/// A validated certificate: resolved resources plus the certificate itself.
pub fn rescert(rc: &ResourceCert) -> String {
    let ip = |b: &rpki::repository::resources::IpBlocks| -> String {
        b.iter().map(|b| format!("{:x}-{:x}", b.min().to_bits(), b.max().to_bits())).collect::<Vec<_>>().join(",")
    };
    let asb: Vec<String> = rc.as_resources().iter().map(|b| format!("{}-{}", b.min().into_u32(), b.max().into_u32())).collect();
    format!(
        "v4[{}] v6[{}] as[{}] tal={} cert={}",
        ip(rc.v4_resources()),
        ip(rc.v6_resources()),
        asb.join(","),
        rc.tal().name(),
        hex(rc.as_cert().to_captured().as_slice())
    )
}

/// Adds a caller-supplied row (validators need the issuer and an instant).
pub fn push_row<T, F: Fn(&T) -> String + 'static>(table: &mut Table<T>, name: &str, f: F) {
    table.rows.push(row(name, f));
}

//------------ Cert / TbsCert -----------------------------------------------

pub fn cert_rows() -> Vec<Row<Cert>> {
    vec![
        // TbsCert data access, in source order
        row("serial_number", |c: &Cert| serial(c.serial_number())),
        row("issuer", |c: &Cert| name(c.issuer())),
        row("validity", |c: &Cert| val(c.validity())),
        row("subject", |c: &Cert| name(c.subject())),
        row("subject_public_key_info", |c: &Cert| {
            let k = c.subject_public_key_info();
            format!("{:?} bits={} der={} ki={}", k.algorithm(), hex(k.bits()), der(k.encode_ref()), k.key_identifier())
        }),
        row("basic_ca", |c: &Cert| format!("{:?}", c.basic_ca())),
        row("subject_key_identifier", |c: &Cert| format!("{}", c.subject_key_identifier())),
        row("authority_key_identifier", |c: &Cert| format!("{:?}", c.authority_key_identifier().map(|k| k.to_string()))),
        row("key_usage", |c: &Cert| format!("{:?}", c.key_usage())),
        row("extended_key_usage", |c: &Cert| {
            format!("{:?}", c.extended_key_usage().map(|e| e.inspect_router().is_ok()))
        }),
        row("crl_uri", |c: &Cert| rsync(c.crl_uri())),
        row("ca_issuer", |c: &Cert| rsync(c.ca_issuer())),
        row("ca_repository", |c: &Cert| rsync(c.ca_repository())),
        row("rpki_manifest", |c: &Cert| rsync(c.rpki_manifest())),
        row("signed_object", |c: &Cert| rsync(c.signed_object())),
        row("rpki_notify", |c: &Cert| https(c.rpki_notify())),
        row("overclaim", |c: &Cert| format!("{:?}", c.overclaim())),
        row("v4_resources", |c: &Cert| ipres(c.v4_resources())),
        row("v6_resources", |c: &Cert| ipres(c.v6_resources())),
        row("has_ip_resources", |c: &Cert| c.has_ip_resources().to_string()),
        row("as_resources", |c: &Cert| asres(c.as_resources())),
        row("as_resources.display", |c: &Cert| c.as_resources().to_string()),
        row("is_ca", |c: &Cert| c.is_ca().to_string()),
        row("is_self_signed", |c: &Cert| c.is_self_signed().to_string()),
        // encoders
        row("tbs.encode_ref", |c: &Cert| {
            let tbs: &TbsCert = c.as_ref();
            der(tbs.encode_ref())
        }),
        row("encode_ref", |c: &Cert| der(c.encode_ref())),
        row("to_captured", |c: &Cert| hex(c.to_captured().as_slice())),
        // inspection (needs only the certificate)
        row("inspect_ta(strict)", |c: &Cert| c.inspect_ta(true).is_ok().to_string()),
        row("inspect_ca(strict)", |c: &Cert| c.inspect_ca(true).is_ok().to_string()),
        row("inspect_ee(strict)", |c: &Cert| c.inspect_ee(true).is_ok().to_string()),
        row("inspect_detached_ee(strict)", |c: &Cert| c.inspect_detached_ee(true).is_ok().to_string()),
        row("inspect_router(strict)", |c: &Cert| c.inspect_router(true).is_ok().to_string()),
        row("inspect_ca(relaxed)", |c: &Cert| c.inspect_ca(false).is_ok().to_string()),
        row("serde_json", |c: &Cert| serde_json::to_string(c).unwrap_or_else(|e| format!("error {}", e))),
    ]
}

pub fn cert_cross() -> Vec<Cross<Cert>> {
    vec![
        cross("issuer ==", |a: &Cert, b: &Cert| a.issuer() == b.issuer()),
        cross("subject ==", |a: &Cert, b: &Cert| a.subject() == b.subject()),
        cross("validity ==", |a: &Cert, b: &Cert| a.validity() == b.validity()),
        cross("serial ==", |a: &Cert, b: &Cert| a.serial_number() == b.serial_number()),
        cross("public key ==", |a: &Cert, b: &Cert| a.subject_public_key_info() == b.subject_public_key_info()),
        cross("v4_resources ==", |a: &Cert, b: &Cert| a.v4_resources() == b.v4_resources()),
        cross("v6_resources ==", |a: &Cert, b: &Cert| a.v6_resources() == b.v6_resources()),
        cross("as_resources ==", |a: &Cert, b: &Cert| a.as_resources() == b.as_resources()),
        cross("crl_uri ==", |a: &Cert, b: &Cert| a.crl_uri() == b.crl_uri()),
        cross("rpki_notify ==", |a: &Cert, b: &Cert| a.rpki_notify() == b.rpki_notify()),
    ]
}

pub fn cert_table(kind: &'static str) -> Table<Cert> {
    Table {
        kind,
        rows: cert_rows(),
        cross: cert_cross(),
        streams: Some(sink::cert),
        states: vec![
            state("clone", |c: &Cert| Ok(c.clone())),
            state("decode(to_captured)", |c: &Cert| Cert::decode(c.to_captured().into_bytes()).map_err(|e| e.to_string())),
            state("serde round trip", |c: &Cert| serde_round_trip(c)),
        ],
    }
}

//------------ Crl -----------------------------------------------------------

pub fn crl_table(probes: Vec<Serial>) -> Table<Crl> {
    let p1 = probes.clone();
    let p2 = probes.clone();
    let p3 = probes;
    Table {
        kind: "crl",
        rows: vec![
            row("signature", |c: &Crl| format!("{:?}", c.signature())),
            row("issuer", |c: &Crl| name(c.issuer())),
            row("this_update", |c: &Crl| t(c.this_update())),
            row("next_update", |c: &Crl| t(c.next_update())),
            row("revoked_certs.iter", |c: &Crl| {
                let v: Vec<String> = c
                    .revoked_certs()
                    .iter()
                    .map(|e| format!("{}@{}", serial(e.user_certificate), t(e.revocation_date)))
                    .collect();
                format!("[{}] {}", v.len(), v.join(" "))
            }),
            row("revoked_certs.encode_ref", |c: &Crl| der(c.revoked_certs().encode_ref())),
            row("revoked_certs.contains(probes)", move |c: &Crl| {
                p1.iter().map(|s| if c.revoked_certs().contains(*s) { '1' } else { '0' }).collect()
            }),
            row("contains(probes)", move |c: &Crl| p2.iter().map(|s| if c.contains(*s) { '1' } else { '0' }).collect()),
            row("cache_serials;contains(probes)", move |c: &Crl| {
                let mut c = c.clone();
                c.cache_serials();
                p3.iter().map(|s| if c.contains(*s) { '1' } else { '0' }).collect()
            }),
            row("signature.encoders", |c: &Crl| sigalg(&c.signature())),
            row("authority_key_identifier", |c: &Crl| c.authority_key_identifier().to_string()),
            row("crl_number", |c: &Crl| serial(c.crl_number())),
            row("as_cert_list.encode_ref", |c: &Crl| der(c.as_cert_list().encode_ref())),
            row("signed_data.data", |c: &Crl| hex(c.signed_data().data().as_slice())),
            row("signed_data.signature", |c: &Crl| {
                format!("{:?} {}", c.signed_data().signature().algorithm(), hex(c.signed_data().signature().value()))
            }),
            row("encode_ref", |c: &Crl| der(c.encode_ref())),
            row("to_captured", |c: &Crl| hex(c.to_captured().as_slice())),
            row("serde_json", |c: &Crl| serde_json::to_string(c).unwrap_or_else(|e| format!("error {}", e))),
        ],
        cross: vec![
            cross("issuer ==", |a: &Crl, b: &Crl| a.issuer() == b.issuer()),
            cross("signed_data ==", |a: &Crl, b: &Crl| a.signed_data() == b.signed_data()),
        ],
        // every `&mut self` method of `Crl` and the container that calls it (`CrlStore`)
        streams: Some(sink::crl),
        states: vec![
            state("clone", |c: &Crl| Ok(c.clone())),
            state("cache_serials", |c: &Crl| {
                let mut c = c.clone();
                c.cache_serials();
                Ok(c)
            }),
            state("cache_serials twice", |c: &Crl| {
                let mut c = c.clone();
                c.cache_serials();
                c.cache_serials();
                Ok(c)
            }),
            state("cache_serials;clone", |c: &Crl| {
                let mut c = c.clone();
                c.cache_serials();
                Ok(c.clone())
            }),
            state("CrlStore(enable_serial_caching).push;get", |c: &Crl| crl_store(c, true)),
            state("CrlStore.push;get", |c: &Crl| crl_store(c, false)),
            state("decode(to_captured)", |c: &Crl| Crl::decode(c.to_captured().into_bytes()).map_err(|e| e.to_string())),
            state("decode(to_captured);cache_serials", |c: &Crl| {
                let mut c = Crl::decode(c.to_captured().into_bytes()).map_err(|e| e.to_string())?;
                c.cache_serials();
                Ok(c)
            }),
            state("serde round trip", |c: &Crl| serde_round_trip(c)),
        ],
    }
}

/// The signature algorithm of an object as what it *means*: the algorithm it
/// signs with and what each of its encoders writes. The value also carries
/// an annotation (were NULL parameters present where it was decoded from?)
/// that takes part in `==` and `Debug`; the library documents that whatever
/// the annotation says, the identifiers it writes carry NULL parameters.
fn sigalg(alg: &rpki::crypto::signature::RpkiSignatureAlgorithm) -> String {
    use rpki::crypto::signature::SignatureAlgorithm;
    format!(
        "{:?} x509_encode={} SignatureAlgorithm::x509_encode={} cms_encode={}",
        alg.signing_algorithm(),
        der(rpki::crypto::signature::RpkiSignatureAlgorithm::x509_encode(*alg)),
        der(SignatureAlgorithm::x509_encode(alg)),
        der(alg.cms_encode())
    )
}

/// The CRL table for values built from *decoded* inputs: the rows that
/// render the algorithm value's annotation (`Debug`, `==` of `SignedData`)
/// are replaced by rows over what the value means and writes.
pub fn crl_table_semantic(probes: Vec<Serial>) -> Table<Crl> {
    let mut t = crl_table(probes);
    t.rows.retain(|(name, _)| name != "signature" && name != "signed_data.signature");
    t.cross.retain(|(name, _)| name != "signed_data ==");
    t.rows.push(row("signature (meaning)", |c: &Crl| sigalg(&c.signature())));
    t.rows.push(row("signed_data.signature (meaning)", |c: &Crl| {
        format!("{} {}", sigalg(c.signed_data().signature().algorithm()), hex(c.signed_data().signature().value()))
    }));
    t.cross.push(cross("signed_data: data and signature value ==", |a: &Crl, b: &Crl| {
        a.signed_data().data().as_slice() == b.signed_data().data().as_slice() && a.signed_data().signature().value() == b.signed_data().signature().value()
    }));
    t
}

#[allow(deprecated)]
fn crl_store(c: &Crl, caching: bool) -> Result<Crl, String> {
    use rpki::repository::crl::CrlStore;
    use std::str::FromStr;
    let mut store = CrlStore::new();
    if caching {
        store.enable_serial_caching();
    }
    let other = uri::Rsync::from_str("rsync://example.net/repo/other.crl").map_err(|e| e.to_string())?;
    let mine = uri::Rsync::from_str("rsync://example.net/repo/ca.crl").map_err(|e| e.to_string())?;
    store.push(mine.clone(), c.clone());
    if store.get(&other).is_some() {
        return Err("store returns a CRL for a URI that was never pushed".into());
    }
    store.get(&mine).cloned().ok_or_else(|| "store lost the CRL".to_string())
}

//------------ Manifest ------------------------------------------------------

pub fn manifest_table(base: uri::Rsync) -> Table<Manifest> {
    let mut rows: Vec<Row<Manifest>> = vec![
        row("manifest_number", |m: &Manifest| serial(m.content().manifest_number())),
        row("this_update", |m: &Manifest| t(m.content().this_update())),
        row("next_update", |m: &Manifest| t(m.content().next_update())),
        row("file_hash_alg", |m: &Manifest| format!("{:?}", m.content().file_hash_alg())),
        row("iter", |m: &Manifest| {
            let v: Vec<String> = m
                .content()
                .iter()
                .map(|f| format!("{}:{}", String::from_utf8_lossy(f.file()), hex(f.hash())))
                .collect();
            format!("[{}] {}", v.len(), v.join(" "))
        }),
        row("iter_uris", move |m: &Manifest| {
            let v: Vec<String> = m
                .content()
                .iter_uris(&base)
                .map(|(u, h)| format!("{}:{}:{:?}", u.as_str(), hex(h.as_slice()), h.algorithm()))
                .collect();
            format!("[{}] {}", v.len(), v.join(" "))
        }),
        row("len", |m: &Manifest| m.content().len().to_string()),
        row("is_empty", |m: &Manifest| m.content().is_empty().to_string()),
        row("deref.len", |m: &Manifest| m.len().to_string()),
        row("content.encode_ref", |m: &Manifest| der(m.content().encode_ref())),
        row("encode_ref", |m: &Manifest| der(m.encode_ref())),
        row("to_captured", |m: &Manifest| hex(m.to_captured().as_slice())),
        row("serde_json", |m: &Manifest| serde_json::to_string(m).unwrap_or_else(|e| format!("error {}", e))),
    ];
    rows.extend(lift("cert", cert_rows(), |m: &Manifest| m.cert()));
    Table {
        kind: "manifest",
        rows,
        cross: vec![],
        streams: Some(sink::manifest),
        states: vec![
            state("clone", |m: &Manifest| Ok(m.clone())),
            state("decode(to_captured)", |m: &Manifest| Manifest::decode(m.to_captured().into_bytes(), true).map_err(|e| e.to_string())),
            state("serde round trip", |m: &Manifest| serde_round_trip(m)),
        ],
    }
}

//------------ Roa -----------------------------------------------------------

fn roa_addrs(a: &RoaIpAddresses) -> String {
    let v: Vec<String> = a
        .iter()
        .map(|x| {
            let (lo, hi) = x.range();
            format!(
                "{:x}/{} max={:?} range={:x}-{:x}",
                x.prefix().addr().to_bits(),
                x.prefix().addr_len(),
                x.max_length(),
                lo.to_bits(),
                hi.to_bits()
            )
        })
        .collect();
    format!("[{}] {}", v.len(), v.join(" "))
}

pub fn roa_table() -> Table<Roa> {
    let mut rows: Vec<Row<Roa>> = vec![
        row("content.as_id", |r: &Roa| r.content().as_id().to_string()),
        row("content.v4_addrs.is_empty", |r: &Roa| r.content().v4_addrs().is_empty().to_string()),
        row("content.v4_addrs.iter", |r: &Roa| roa_addrs(r.content().v4_addrs())),
        row("content.v6_addrs.is_empty", |r: &Roa| r.content().v6_addrs().is_empty().to_string()),
        row("content.v6_addrs.iter", |r: &Roa| roa_addrs(r.content().v6_addrs())),
        row("content.iter", |r: &Roa| {
            let v: Vec<String> = r
                .content()
                .iter()
                .map(|f| {
                    format!(
                        "{} v4={} addr={} len={} max={} prefix={:x}/{}",
                        f,
                        f.is_v4(),
                        f.address(),
                        f.address_length(),
                        f.max_length(),
                        f.prefix().addr().to_bits(),
                        f.prefix().addr_len()
                    )
                })
                .collect();
            format!("[{}] {}", v.len(), v.join(" "))
        }),
        row("content.iter_origins", |r: &Roa| {
            let v: Vec<String> = r.content().iter_origins().map(|o| format!("{}=>{}", o.prefix, o.asn)).collect();
            format!("[{}] {}", v.len(), v.join(" "))
        }),
        row("content.encode_ref", |r: &Roa| der(r.content().encode_ref())),
        row("encode_ref", |r: &Roa| der(r.encode_ref())),
        row("to_captured", |r: &Roa| hex(r.to_captured().as_slice())),
        row("serde_json", |r: &Roa| serde_json::to_string(r).unwrap_or_else(|e| format!("error {}", e))),
    ];
    rows.extend(lift("cert", cert_rows(), |r: &Roa| r.cert()));
    Table {
        kind: "roa",
        rows,
        cross: vec![],
        streams: Some(sink::roa),
        states: vec![
            state("clone", |r: &Roa| Ok(r.clone())),
            state("decode(to_captured)", |r: &Roa| Roa::decode(r.to_captured().into_bytes(), true).map_err(|e| e.to_string())),
            state("serde round trip", |r: &Roa| serde_round_trip(r)),
        ],
    }
}

//------------ Aspa ----------------------------------------------------------

pub fn aspa_table() -> Table<Aspa> {
    let mut rows: Vec<Row<Aspa>> = vec![
        row("content.customer_as", |a: &Aspa| a.content().customer_as().to_string()),
        row("content.provider_as_set.len", |a: &Aspa| a.content().provider_as_set().len().to_string()),
        row("content.provider_as_set.iter", |a: &Aspa| {
            let v: Vec<String> = a.content().provider_as_set().iter().map(|x| x.into_u32().to_string()).collect();
            format!("[{}] {}", v.len(), v.join(" "))
        }),
        row("content.provider_as_set.to_set", |a: &Aspa| {
            let s = a.content().provider_as_set().to_set();
            let v: Vec<String> = s.iter().map(|x| x.into_u32().to_string()).collect();
            format!("[{}] {}", s.len(), v.join(" "))
        }),
        row("content.as_resources", |a: &Aspa| asres(&a.content().as_resources())),
        row("content.encode_ref", |a: &Aspa| der(a.content().encode_ref())),
        row("encode_ref", |a: &Aspa| der(a.encode_ref())),
        row("to_captured", |a: &Aspa| hex(a.to_captured().as_slice())),
        row("serde_json", |a: &Aspa| serde_json::to_string(a).unwrap_or_else(|e| format!("error {}", e))),
    ];
    rows.extend(lift("cert", cert_rows(), |a: &Aspa| a.cert()));
    Table {
        kind: "aspa",
        rows,
        cross: vec![],
        streams: Some(sink::aspa),
        states: vec![
            state("clone", |a: &Aspa| Ok(a.clone())),
            state("decode(to_captured)", |a: &Aspa| Aspa::decode(a.to_captured().into_bytes(), true).map_err(|e| e.to_string())),
            state("serde round trip", |a: &Aspa| serde_round_trip(a)),
        ],
    }
}

//------------ Csr -----------------------------------------------------------

pub fn csr_table() -> Table<RpkiCaCsr> {
    Table {
        kind: "csr",
        rows: vec![
            row("subject", |c: &RpkiCaCsr| name(c.subject())),
            row("public_key", |c: &RpkiCaCsr| der(c.public_key().encode_ref())),
            row("basic_ca", |c: &RpkiCaCsr| c.basic_ca().to_string()),
            row("key_usage", |c: &RpkiCaCsr| format!("{:?}", c.key_usage())),
            row("extended_key_usage", |c: &RpkiCaCsr| {
                format!("{:?}", c.extended_key_usage().map(|e| e.inspect_router().is_ok()))
            }),
            row("ca_repository", |c: &RpkiCaCsr| rsync(c.ca_repository())),
            row("rpki_manifest", |c: &RpkiCaCsr| rsync(c.rpki_manifest())),
            row("rpki_notify", |c: &RpkiCaCsr| https(c.rpki_notify())),
            row("verify_signature", |c: &RpkiCaCsr| c.verify_signature().is_ok().to_string()),
            row("encode_ref", |c: &RpkiCaCsr| der(c.encode_ref())),
            row("to_captured", |c: &RpkiCaCsr| hex(c.to_captured().as_slice())),
            row("serde_json", |c: &RpkiCaCsr| serde_json::to_string(c).unwrap_or_else(|e| format!("error {}", e))),
        ],
        cross: vec![cross("subject ==", |a: &RpkiCaCsr, b: &RpkiCaCsr| a.subject() == b.subject())],
        streams: Some(sink::csr),
        states: vec![
            state("clone", |c: &RpkiCaCsr| Ok(c.clone())),
            state("decode(to_captured)", |c: &RpkiCaCsr| RpkiCaCsr::decode(c.to_captured().as_slice()).map_err(|e| e.to_string())),
            state("serde round trip", |c: &RpkiCaCsr| serde_round_trip(c)),
        ],
    }
}

//------------ IdCert --------------------------------------------------------

pub fn idcert_table(kind: &'static str) -> Table<IdCert> {
    Table {
        kind,
        rows: vec![
            row("public_key", |c: &IdCert| der(c.public_key().encode_ref())),
            row("subject_public_key_info", |c: &IdCert| der(c.subject_public_key_info().encode_ref())),
            row("subject_key_identifier", |c: &IdCert| c.subject_key_identifier().to_string()),
            row("serial_number", |c: &IdCert| serial(c.serial_number())),
            row("subject_key_id", |c: &IdCert| c.subject_key_id().to_string()),
            row("authority_key_id", |c: &IdCert| format!("{:?}", c.authority_key_id().map(|k| k.to_string()))),
            row("subject", |c: &IdCert| name(c.subject())),
            row("validity", |c: &IdCert| val(*c.validity())),
            row("tbs.encode_ref", |c: &IdCert| {
                let tbs: &TbsIdCert = c.as_ref();
                der(tbs.encode_ref())
            }),
            row("encode_ref", |c: &IdCert| der(c.encode_ref())),
            row("to_captured", |c: &IdCert| hex(c.to_captured().as_slice())),
            row("to_bytes", |c: &IdCert| hex(&c.to_bytes())),
            row("serde_json", |c: &IdCert| serde_json::to_string(c).unwrap_or_else(|e| format!("error {}", e))),
        ],
        cross: vec![
            cross("IdCert ==", |a: &IdCert, b: &IdCert| a == b),
            cross("TbsIdCert ==", |a: &IdCert, b: &IdCert| {
                let (x, y): (&TbsIdCert, &TbsIdCert) = (a.as_ref(), b.as_ref());
                x == y
            }),
        ],
        streams: Some(sink::idcert),
        states: vec![
            state("clone", |c: &IdCert| Ok(c.clone())),
            state("decode(to_captured)", |c: &IdCert| IdCert::decode(c.to_captured().as_slice()).map_err(|e| e.to_string())),
            state("serde round trip", |c: &IdCert| serde_round_trip(c)),
        ],
    }
}

//------------ SignedMessage -------------------------------------------------

pub fn sigmsg_table(kind: &'static str) -> Table<SignedMessage> {
    Table {
        kind,
        rows: vec![
            row("content_type", |m: &SignedMessage| m.content_type().to_string()),
            row("content", |m: &SignedMessage| hex(&m.content().to_bytes())),
            row("encode_ref", |m: &SignedMessage| der(m.encode_ref())),
            row("to_captured", |m: &SignedMessage| hex(m.to_captured().as_slice())),
        ],
        cross: vec![],
        streams: Some(sink::sigmsg),
        states: vec![
            state("clone", |m: &SignedMessage| Ok(m.clone())),
            state("decode(to_captured)", |m: &SignedMessage| SignedMessage::decode(m.to_captured().as_slice(), true).map_err(|e| e.to_string())),
        ],
    }
}

//------------ comparison engine ---------------------------------------------

fn clip(s: &str) -> String {
    let n = s.chars().count();
    if n <= 700 {
        s.to_string()
    } else {
        let head: String = s.chars().take(400).collect();
        let tail: String = s.chars().skip(n - 250).collect();
        format!("{}...[{} chars]...{}", head, n, tail)
    }
}

/// First index at which the two renderings differ (for the report).
fn first_diff(a: &str, b: &str) -> usize {
    a.bytes().zip(b.bytes()).position(|(x, y)| x != y).unwrap_or(a.len().min(b.len()))
}

/// Evaluates the table on both values. Returns (rows evaluated, rows bad).
pub fn compare<T>(ctx: &mut Ctx, table: &Table<T>, built: &T, decoded: &T, detail: &dyn Fn() -> Value) -> (u64, u64) {
    let mut n = 0u64;
    let mut bad = 0u64;
    // the agreed answer of every row (None where the first pass already reported)
    let mut base: Vec<Option<String>> = Vec::with_capacity(table.rows.len());
    for (rname, f) in &table.rows {
        n += 1;
        let a = catch(|| f(built));
        let b = catch(|| f(decoded));
        base.push(match (&a, &b) {
            (Ok(x), Ok(y)) if x == y => Some(x.clone()),
            _ => None,
        });
        match (a, b) {
            (Ok(a), Ok(b)) => {
                if a != b {
                    bad += 1;
                    let at = first_diff(&a, &b);
                    ctx.violation(
                        &format!("C05:accessor-differs:{}.{}", table.kind, rname),
                        &format!("{}: accessor `{}` answers differently on the built value and on its decoded twin", table.kind, rname),
                        json!({"built": clip(&a), "decoded": clip(&b), "first_difference_at": at, "case": detail()}),
                    );
                }
            }
            (a, b) => {
                bad += 1;
                ctx.obs("panics_caught", 1);
                for (side, r) in [("built", &a), ("decoded", &b)] {
                    if let Err(text) = r {
                        ctx.violation(
                            &format!("C05:accessor-panic:{}.{}:{}", table.kind, rname, side),
                            &format!("{}: accessor `{}` panics on the {} value ({})", table.kind, rname, side, panic_location(text)),
                            json!({"panic": text, "other_side": match (side, &a, &b) {
                                ("built", _, Ok(s)) => clip(s),
                                ("decoded", Ok(s), _) => clip(s),
                                _ => "panicked too".to_string(),
                            }, "case": detail()}),
                        );
                    }
                }
            }
        }
    }
    for (rname, f) in &table.cross {
        n += 1;
        match catch(|| f(built, decoded)) {
            Ok(true) => {}
            Ok(false) => {
                bad += 1;
                ctx.violation(
                    &format!("C05:accessor-differs:{}.{}", table.kind, rname),
                    &format!("{}: `{}` is false between the built value and its decoded twin", table.kind, rname),
                    json!({"case": detail()}),
                );
            }
            Err(text) => {
                bad += 1;
                ctx.obs("panics_caught", 1);
                ctx.violation(
                    &format!("C05:accessor-panic:{}.{}:cross", table.kind, rname),
                    &format!("{}: `{}` panics ({})", table.kind, rname, panic_location(&text)),
                    json!({"panic": text, "case": detail()}),
                );
            }
        }
    }
    // The structural encoders of both values into sinks that take less than
    // offered or refuse (only when the first pass agreed: the expectation is
    // the object's own octets).
    if bad == 0 {
        if let Some(f) = table.streams {
            f(ctx, table.kind, built, decoded, detail);
        }
    }
    // State across calls: a value brought into another state the public API
    // offers (see `State`) is still the same object; it has to answer every
    // accessor as the pristine built value and its pristine twin did, and the
    // value it was derived from must answer as before. Only done when the
    // first pass agreed on everything, so that one defect is reported once.
    if bad == 0 && !table.states.is_empty() {
        let call = COMPARE_CALLS.with(|c| {
            let v = c.get();
            c.set(v + 1);
            v
        });
        let mut rng = crate::core::Rng::derive(ctx.seed, &["C05", "states"], &[ctx.shard, call]);
        for _ in 0..2 {
            let on_built = rng.bool();
            let (side, src) = if on_built { ("built", built) } else { ("decoded", decoded) };
            let (sname, sf) = &table.states[rng.usize_below(table.states.len())];
            ctx.sig(&format!("{}:state={} of {}", table.kind, sname, side));
            let derived = match catch(|| sf(src)) {
                Err(text) => {
                    bad += 1;
                    ctx.obs("panics_caught", 1);
                    ctx.violation(
                        &format!("C05:state-panic:{}.{}:{}", table.kind, sname, side),
                        &format!("{}: `{}` panics on the {} value ({})", table.kind, sname, side, panic_location(&text)),
                        json!({"panic": text, "case": detail()}),
                    );
                    continue;
                }
                Ok(Err(e)) => {
                    ctx.obs(&format!("state_not_reached:{}.{}", table.kind, sname), 1);
                    let _ = e;
                    continue;
                }
                Ok(Ok(v)) => v,
            };
            ctx.obs("states_entered", 1);
            let mut order: Vec<usize> = (0..table.rows.len()).collect();
            rng.shuffle(&mut order);
            for phase in 0..2 {
                // phase 0: the derived value, rows in random order; phase 1: the value it came from, again
                let target = if phase == 0 { &derived } else { src };
                for &i in &order {
                    let Some(want) = &base[i] else { continue };
                    let (rname, f) = &table.rows[i];
                    n += 1;
                    let (sig, text) = if phase == 0 {
                        (
                            format!("{}.{}:after:{}", table.kind, rname, sname),
                            format!("accessor `{}` answers differently once the {} value went through `{}`", rname, side, sname),
                        )
                    } else {
                        (
                            format!("{}.{}:source-of:{}", table.kind, rname, sname),
                            format!("accessor `{}` of the {} value answers differently after `{}` was applied to a copy of it", rname, side, sname),
                        )
                    };
                    match catch(|| f(target)) {
                        Ok(got) => {
                            if &got != want {
                                bad += 1;
                                let at = first_diff(want, &got);
                                ctx.violation(
                                    &format!("C05:accessor-differs:{}", sig),
                                    &format!("{}: {}", table.kind, text),
                                    json!({"pristine": clip(want), "now": clip(&got), "first_difference_at": at, "state": sname, "side": side, "case": detail()}),
                                );
                            }
                        }
                        Err(p) => {
                            bad += 1;
                            ctx.obs("panics_caught", 1);
                            ctx.violation(
                                &format!("C05:accessor-panic:{}", sig),
                                &format!("{}: accessor `{}` panics ({}) in state `{}` of the {} value", table.kind, rname, panic_location(&p), sname, side),
                                json!({"panic": p, "pristine": clip(want), "state": sname, "side": side, "case": detail()}),
                            );
                        }
                    }
                }
            }
        }
    }
    ctx.evals(n);
    ctx.obs("accessor_rows_compared", n);
    (n, bad)
}

thread_local! {
    static COMPARE_CALLS: std::cell::Cell<u64> = const { std::cell::Cell::new(0) };
}

pub fn row_count<T>(t: &Table<T>) -> usize {
    t.rows.len() + t.cross.len()
}
