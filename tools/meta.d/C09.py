prop(
    "C09",
    quick=[("native", 12), ("miri", 4)],
    thorough=[("native", 16), ("asan", 8), ("miri", 4), ("fuzz", 16)],
    level="exploration",
    min_evals={"quick": 450_000, "thorough": 3_500_000},
    # configuration of the `fuzz` stage (driver side: run_fuzz_stage in ../../check, target: harness/fuzz/fuzz_targets/c09_rrdp.rs)
    fuzz={
        "seconds": 120,
        "max_len": 16384,
        "targets": [
            {"name": "c09_rrdp", "group": "rrdp"},
        ],
    },
    rule=(
        "Five generated workloads, each decided by an oracle written from the statement. "
        "(1) Round trips: model values of the three file kinds (nil/max/random session ids, serials over 0..u64::MAX with boundaries, "
        "https/rsync URIs drawn from every octet the crate permits with & ' = ; over-represented, raw 32-byte hashes, object contents "
        "0..64 KiB incl. empty, 1-3 bytes, all byte values and lengths around 768/1024/3072/4096, 0..300 elements, delta elements "
        "P/U/W in grouped and random orders; the first case of every shard is a document larger than the header limit, the second one "
        "carries objects of 128 KiB..4 MiB (16 MiB in thorough) with lengths 2^k-1, 2^k, 2^k+1, 2^k+2, 3*2^(k-1)+{0,1,2}, different "
        "lengths in every shard) are built into "
        "library values, written with write_xml and parsed back through NotificationFile::parse/parse_limited, Snapshot::parse, "
        "Delta::parse and through the harness' own ProcessSnapshot/ProcessDelta collectors with several read patterns (read_to_end, "
        "1..n byte chunks, skip, partial, and a per-object seeded mix of read / read_vectored / take(k).read_to_end / bytes().take(k) "
        "followed by read_to_end, io::copy or a chunk loop) and reader chunkings; equality is checked field by field against the model including "
        "element order and with ==. Case signature: (kind, element-count class, special characters present, data/size class, "
        "element kinds and transitions). "
        "(2) Never-ending hostile streams: valid prefix from an independent XML writer cut at every element position "
        "(root, each child, inside publish, after the root) followed by one of 25 endless classes (attribute value / name, element "
        "and end-tag name, whitespace inside and between tags, text, entity and char-ref runs, comment, run of comments, PI, DOCTYPE "
        "with entity declarations, XML declaration, CDATA, endless attributes, deep nesting), as notification, snapshot and delta, "
        "behind a counting reader under BufReader capacities 61 B..2 MiB. Oracle: no panic and bytes pulled <= offset of the "
        "offending element + limit + capacity, limit = header limit (hook H2) for notification files and for the root of "
        "snapshot/delta files, file limit for what follows the root start tag; peak heap <= 4 x (limit + capacity) + 4 MiB. "
        "Quick runs every header-limit case once and six 100 MB file-limit cases; thorough every class at every position. "
        "Two further families use the same bound: (2b) compound streams in which the offending element first spends 1/4 (thorough also "
        "1/2 and 9/10) of its limit on something legal but large - white space or a comment in front of it, white space inside its start "
        "tag, a very long URI or attribute, a long text before white space in the end tag - and only then never ends (11 classes over the "
        "three file kinds and both limits), so that a budget that is started afresh inside one element reads first region + limit; "
        "(2c) an endless element after a valid document that is itself longer than the file limit (1.01x, thorough also 2x; large "
        "entries followed by thousands of ordinary ones), so that a bound that depends on what was read before is seen. "
        "Case signature: (kind, class, position class, limit kind). "
        "(3) sort_and_verify_deltas against the model (sort, keep newest `limit`, consecutive in u128) on 14 multiset classes "
        "(runs sorted/reversed/shuffled, gap, duplicate, duplicate u64::MAX, wrap-around, two runs, random, oversized list) x limits "
        "None/0/1/2/len-1/len/len+1/usize::MAX/random; signature (class, limit class, expected). "
        "(4) has_matching_origins against authority equality ignoring ASCII case, authorities varied by case, suffix, prefix, "
        "port, one character, truncation; signature (delta count, kinds of foreign authority, expected). "
        "(5) Byte-mutated documents (13 mutators incl. XML tokens, invalid UTF-8, BOMs, number replacement, crossover; every "
        "truncation point of one document per kind), random bytes and large finite hostile documents (10^6 attributes, 2x10^5 "
        "nested elements, entity-expansion DOCTYPE): no panic; every accepted value must survive write_xml/parse; signature "
        "(kind, mutator, outcome class). Foreign valid documents in many legal spellings are parsed and what happens is recorded "
        "(observation only). evaluations counts single parses / model comparisons. "
        "(6) Fuzz stage (thorough): coverage-guided libFuzzer executions of target c09_rrdp; input octet 0 selects the file kind, the parser (NotificationFile::parse / "
        "parse_limited, Snapshot::parse / Delta::parse or the harness' collecting ProcessSnapshot / ProcessDelta) and the reader chunking (slice, or BufReader of 1/2/5/16/4096 "
        "octets over a dribbling reader), the rest (up to 16 KiB) is the document; judged by the same function as the mutants of (5): no panic, and a value the owned parser "
        "accepts must survive write_xml followed by a parse to an equal value. Seeded with ~360 small generated files in the library's and in foreign spellings; "
        "executions are counted as evaluations, not as signatures. "
        "(7) Sinks that start refusing: small notification / snapshot / delta values (0..3 children, so that an empty root, a last <withdraw/> and a last "
        "<publish>text</publish> all occur) and documents built directly with rpki::xml::encode::Writer (nested and empty elements, escaped attributes, PCDATA, raw text, Base64, "
        "ending in Writer::done) are written into a sink with room for exactly r bytes, for EVERY r from 0 to the document length + 1 (Miri: every 128th r and the last 26), "
        "taking unlimited / 1 / 7 bytes per call and, at the edge, either the part that still fits or nothing; once full the sink fails every write for good. Oracle: write_xml may "
        "return Ok only if the complete document (byte-identical to what the same value wrote into a Vec and parsed back) arrived; an error with the complete document is left open. "
        "Each write is one evaluation; signature (kind, child count, kind of last child, length class)."
        "Attribute values of valid documents re-spelled with character references (same character; characters of 2-4 octets in place of as many ASCII characters at every offset), raw non-ASCII and stray entities through both parser doors of each file kind (panic-freedom; what a same-character reference does is recorded). The delta-chain check is repeated after histories of 1-4 calls of sort_deltas / reverse_sort_deltas / sort_and_verify_deltas(None) / clone on the same value, the model re-read from deltas() after the history. "
    ),
    assumptions=[
        "the per-element limits are the two numbers exported by hook H2 (rpki::rrdp::VERIF_LIMITS); header limit applies to every element of a notification file and to the root element of snapshot/delta files, file limit to the children and content of snapshot/delta files (as configured by the calls to start_with_limit / take_opt_element_with_limit)",
        "'one buffer' is the capacity of the std::io::BufReader the harness puts between its counting reader and the parser",
        "an endless valid sequence of elements (e.g. infinitely many <delta/> entries) is outside the property: the limits are per element",
        "values accepted from foreign spellings are only required not to panic; whether the intended value comes out is recorded as an observation",
        "arithmetic overflow checks are on in the harness build (profile verif), so `serial + 1` overflow surfaces as a panic",
        "URI equality is the crate's own Eq (scheme/authority case-insensitive)",
    ],
    level_text=(
        "Runtime monitoring of the real parsers and writers on generated values, on never-ending generated byte streams and on mutated "
        "documents; the oracles (value model, byte-count bound from the statement with limits read through hook H2, delta-chain and origin "
        "models) are independent of the code under test. Endless streams cannot be held in a test file and their bound is a logical counter, "
        "which is exactly what a counting reader under the parser observes. Miri repeats round trips, small-document parsing, the models and "
        "one header-limit stream; ASan repeats a reduced version of everything including two 100 MB streams. The thorough tier ends with 2 minutes of "
        "coverage-guided libFuzzer (16 forks, ASan build) on the three parsers and the two processors with the no-panic and accepted-value-round-trips oracle."
    ),
    level_note=(
        "Sampled, not exhaustive: held on the explored cases only. The byte bound is checked for 25 hostile shapes at the element positions "
        "of small prefix documents, not for every conceivable token; memory is bounded only loosely (4x)."
    ),
    technique="runtime oracles + counting reader under unbounded hostile generators + counting allocator + failing-sink sweep over every cut-off point of every writer; Miri and ASan stages; libFuzzer on the parsers",
    design_ref="DESIGN.md §4 C09, §5 H2",
)
