prop(
    "C13",
    quick=[("native", 8), ("miri", 4)],
    thorough=[("native", 16), ("miri", 8)],
    level="exploration",
    min_evals={"quick": 180_000_000, "thorough": 3_000_000_000},
    rule=(
        "values that enter through the other public doors obey the same laws as constructed ones (length within the family, host bits zero, "
        "prefix length <= max-len <= family maximum, equal / equally hashed / cmp Equal to the value rebuilt from their own parts by the named "
        "constructor, text parses back, AS sets strictly ascending): Arbitrary::arbitrary (crate feature `arbitrary`) of Prefix, MaxLenPrefix, "
        "RouteOrigin, SmallAsnSet, Asn from every (family selector, length selector) octet pair x 5 characteristic addresses x 10 max-len octets "
        "plus random octet strings; serde through the harness' token format - every domain prefix serialised human-readable and compact and "
        "read back over 6 transports (borrowed / transient / owned strings x structs as map / sequence) must be the same value, and every leaf "
        "token damaged in up to 12 ways (boundary values of its width, single bits, trimmed / padded strings) must give an error or a value that "
        "satisfies the laws; hashes are compared under SipHash and under a word-at-a-time hasher; "
        "constructors (strict, relaxed, per-family, text) for every length 0..=255 x a boundary-dense address pool (address as given, host bits cleared, lowest / highest host bit set); "
        "a boundary-dense prefix domain (chains /0../32 and /0../128 through several addresses plus the sibling of every chain element; about 450 prefixes quick, 840 thorough): "
        "all ordered pairs for covers vs range inclusion, cmp vs ==, hash, more-specific-first, antisymmetry, and all triples for transitivity (on the matrix of library results); "
        "random families of related prefixes (parents, children, sibling, host prefix, unrelated, other family); MaxLenPrefix::new / saturating_new / text for a sub-domain x every max-len 0..=255 and None; "
        "MaxLenPrefix order and RouteOrigin Eq/Ord/Hash over prefixes x {None, len, len+1, family max} x 3 ASNs, all pairs and triples; "
        "Asn text round trip; SmallAsnSet built from every sequence (with repeats) over {0,1,2,MAX} up to length 4 / 5 and random longer multisets, checked against BTreeSet, "
        "then union/intersection/difference/symmetric_difference on all pairs. A case signature is (law, family pair, length relation, nesting relation, length classes); "
        "distinct_nontrivial counts those classes, evaluations counts single law checks (a triple looked up in the comparison matrix is one evaluation)."
        "Arbitrary is also fed structured inputs for collections: every sequence of 3-5 items over {0, 1, 2, MAX} in the two layouts arbitrary uses for collections, and a soup of such pieces. "
    ),
    assumptions=[
        "the address range of a prefix is computed in the harness from (family, address, length) in the family's own width; families never cover each other",
        "rejection of an in-range input by a constructor is recorded, not reported (the statement only says what may be constructed); displayed values must parse back",
        "saturating_new must stay within [prefix length, family maximum] and leave in-range values alone; which bound an out-of-range value is clamped to is recorded only",
        "RouteOrigin: equality, Equal<=>==, hash, total-order laws and 'prefix is the primary key' are demanded; the direction of the max-length / ASN tie-break is recorded only",
        "set operations are judged only on operands that passed the sorted-and-duplicate-free check",
    ],
    level_text=(
        "Runtime oracles (range-inclusion model, order laws, BTreeSet) over all lengths, all pairs and all triples of a boundary-dense domain and all small AS multisets, plus random families; "
        "Miri repeats a 32-prefix domain, all lengths 0..=255 for one address per family (five in the thorough tier), boundary max-lengths and all AS sequences up to length 2. The types are small value types whose laws quantify over pairs and triples, so dense enumeration around every boundary is the natural level."
    ),
    level_note="Domain elements away from the listed addresses and boundary lengths are only sampled (random families).",
    technique="runtime oracle over boundary-dense enumeration (all pairs / all triples) + Miri",
    design_ref="DESIGN.md §4 C13",
)
