prop(
    "C11",
    quick=[("native", 16)],
    thorough=[("native", 16), ("asan", 8), ("miri", 8), ("fuzz", 16), ("compat", 8)],
    level="exploration",
    min_evals={"quick": 600_000, "thorough": 10_000_000},
    # configuration of the `fuzz` stage (driver side: run_fuzz_stage in ../../check, target: harness/fuzz/fuzz_targets/c11_xml.rs)
    fuzz={
        "seconds": 120,
        "max_len": 16384,
        "targets": [
            {"name": "c11_xml", "group": "xml"},
        ],
    },
    rule=(
        "Messages are built through the public constructors only: RFC 6492 list, list_response, issue, issue_response, revoke, "
        "revoke_response, error_response (all 11 codes); RFC 8181 list query, list reply, publish/update/withdraw deltas, success, "
        "error reply (all 8 codes); RFC 8183 child_request (new, and serde for the tagged form), parent_response, publisher_request, "
        "repository_response. Free-form strings (class names, tags, http service URIs) are printable ASCII with < > & \" ' and "
        "leading/trailing/double spaces over-represented; handles use the whole verify_name alphabet, lengths 1..255; rsync/https URIs use "
        "every character check_uri_ascii admits; resource sets are canonical interval lists in the shapes empty / point / prefix / range / "
        "all / few / many incl. IPv4-mapped and IPv4-compatible IPv6, built with the block builders or from text; lists have 0, 1, many "
        "entries; object contents are arbitrary bytes of all base64 padding classes; certificates, CSRs and identity certificates are made "
        "with the library over pool keys once per shard (native and ASan only). Each message: written, checked by expat (tools/xml_wf.py, "
        "batched), parsed back and compared with PartialEq. Each written document is then damaged by byte-level (9 mutators) and tag-level "
        "(16 mutators: delete/duplicate/swap/rename tags, attribute rename/drop/duplicate/add/requote/hostile value, markup insertion, hostile "
        "text, prefixes, self-nesting) mutations, stacked mutations and vocabulary-built random documents, and fed to its own parser and "
        "sometimes to another of the six parsers under catch_unwind. evaluations = round trips + documents judged by expat + parser runs. "
        "A case signature (distinct_nontrivial) is (message variant, which string fields carry XML-special characters, which carry edge "
        "spaces, list-size classes, resource-shape classes / payload class) for strict round-trip cases, and (parser, mutator) for mutants; "
        "cases built from values outside the protocols (see assumptions) are not counted as signatures. "
        "Text-level documents: messages that only the decoders can produce. The harness' own XML writer (nothing from rpki::xml) writes every RFC 6492 / 8181 / 8183 message kind from protocol-valid "
        "field values with each optional part independently present or absent (xmlns, version, <description> and its xml:lang, <error_text>, <failed_pdu>, tag on report_error and on the RFC 8183 messages, "
        "hash on <publish>, req_resource_set_as/ipv4/ipv6 on <request> and <certificate>, resource_set_as/ipv4/ipv6 on <class>, rrdp_notification_uri) and with extras the constructors never emit "
        "(suggested_sia_head, <issuer> not last, padded ski, <offer/>, <referral>, namespace without trailing slash), in several spellings (declaration, comments, quote style, attribute order, compact, "
        "explicit end tags, folded Base64, CRLF). If the decoder accepts the document, the returned message m must be written without error, the output must satisfy expat, parse back to m' == m, and "
        "writing m' must give the same bytes; a rejected document asserts nothing. Signature: (variant, set of parts left out, set of extras). "
        "Lexical forms: a further pass writes the same population of documents (one third of them forced to be an RFC 6492 error_response or an RFC 8181 error reply, the two messages with free text; "
        "<description> and <error_text> drawn from printable ASCII full of < & > ]]> </description> <![CDATA[ &amp; &#60; quotes) with one value (3 in 4 documents) or two to three values re-spelled in another way XML "
        "allows for the same character data. Any attribute value of any element (xmlns, version, type, handles, URIs, tags, class names, resource sets, hashes, ski, error_code, xml:lang ...): the five predefined "
        "entities for all markup characters, decimal / hexadecimal character references (markup characters only, every character, mixed, leading zeros, both hex cases), minimal escaping (> and the other quote raw), "
        "white space around =, &#32; inside or at an edge, literal spaces at the edges, and - recorded only, the value then holds a control character - &#9; &#10; &#13; and literal tab / LF / CRLF. Any text node "
        "(<description>, <error_text>, <status>, and the Base64 content of <certificate>, <issuer>, <request>, <publish>, <referral>, the four *_bpki_ta): one CDATA section (a ]]> inside split over two), CDATA mixed "
        "with plain runs and references, an empty CDATA section next to the text, decimal / hex references, every character as a reference, predefined entities, a comment or a processing instruction inside / "
        "before / after / around the text, literal white space (spaces, tab, LF, CRLF) around it, &#32; &#10; &#9; &#13; at its edges, CRLF inside (Base64: CRLF line folding). A text node that is not re-spelled is "
        "mostly written free of markup characters so that the reader's verdict is about the re-spelled value. The judgement is the one above (accepted => written well-formed for expat, parsed back equal, written "
        "again identically); rejection asserts nothing and is counted (lexical:accepted|rejected:<attr|text|base64>:<form>, lexical_slot:<text node>:<family>:..., lexical_free_text_delivered:with|without-lt-or-amp "
        "= what the reader hands to the writers that copy free text out unescaped). A failure is attributed by writing the document again with every value plain (fails too => C11:text-roundtrip:*) and "
        "with one value re-spelled at a time => C11:lexical-roundtrip:<variant>:<attr:element@name|text:element|base64:element>:<cdata|reference|comment-or-pi[+reference]|white-space[+reference]|quoting|attr-syntax>:<what>. "
        "Signature: (variant, re-spelled slot, form) for accepted documents. "
        "The fuzz stage (thorough) adds coverage-guided libFuzzer executions of target c11_xml: input octet 0 selects one of the six parsers (provisioning::Message::decode, "
        "publication::Message::decode, ChildRequest / ParentResponse / PublisherRequest / RepositoryResponse::parse), the rest (up to 16 KiB) is the document; judged by the same "
        "function as the mutants (no panic in the parser, in writing an accepted value or in parsing that again; hook H1 drained). Seeded with up to 480 documents the library wrote "
        "for generated messages of all variants; executions are counted as evaluations, not as signatures. "
        "Long values (c11_long.rs): values built as recipes of plain runs (no character that needs an escape; every 41st character a single space, or / in a URI) whose lengths sit on the ladder "
        "255 256 257 1023 1024 1025 4095 4096 4097 8191 8192 8193 65535 65536 65537 (thorough: also 63..65, 127..129, 511..513, 2047..2049, 16 Ki, 32 Ki, 128 Ki, 1 Mi, each -1/+0/+1) and of characters that need an escape "
        "(& < > \" ' and clusters such as && <> ]]> &amp; </a>; & and ' in URIs) in 12 shapes: special,run / short,special,run / run,special / run,special,short / special,run,special / run,special,run / "
        "special,run,special,run,special / run / the same two with the whole value (not the run) on the ladder / (special,run)* and (run,special)* with 2..12 repetitions. Every (shape, ladder length) is put into each of 25 "
        "fields: tag of child_request (serde), parent_response, publisher_request, repository_response, <publish>, <update>, <withdraw>; the same recipe in tag and uri of all three elements of one delta; class_name of revoke, "
        "revoke_response, issue, issue_response, list_response; ServiceUri::Http; https service_uri of parent_response / repository_response, sia_base, rrdp_notification_uri, uri of <publish> / <update> / <withdraw> / <list>, "
        "cert_url of <class> and of <certificate> in issue_response and list_response (lengths above 9000 for a third of the (field, shape) pairs, chosen by the seed). Resource sets whose text form (the library's Display, many "
        "small pieces) just reaches / just misses 256, 1 Ki, 4 Ki, 8 Ki, 64 Ki octets (AS, IPv4, IPv6) in issue, issue_response and list_response. <description>, <error_text> and the tag of <report_error>, which only a decoder "
        "sets, in documents written by the harness (judged like the text-level documents). Judgement: the constructor-built one (expat, parsed back equal); for a value longer than the RELAX NG schemas allow (tag, class_name, "
        "description 1024; URIs 4096) the document must still be well-formed and, if parsed back, equal, but a decode error is only counted (open:longer-than-the-schema-allows:decode-error). Signature: (variant, field, shape, ladder length). "
        "Sinks (c11_sink.rs): one message of every variant of every type with its optional parts in both states (38 fixed ones incl. list replies of 8 KiB / 64 KiB / 128 KiB, a delta with one 68 kB object, a 9 kB tag behind R&D, "
        "a 70 kB list_response; spread over the shards by index + seed) and 6 (thorough 40) messages of the random generator per shard. Reference = what write_xml puts into a Vec (only documents that parse back equal are swept); "
        "to_xml_vec / to_xml_string / to_xml_bytes must return the same octets. Then write_xml into a model sink with room for k octets for every k in 0..=len+1 (documents above 3000 octets, thorough 12000: the first 300, the last 600, "
        "every k within 2 of a multiple of 4096, and a stride of 211 / 29 with a random phase): at every k a sink that refuses the whole call at the edge and one that takes the part that fits, then fail for good (ErrorKind Other / "
        "BrokenPipe / WriteZero / WouldBlock / StorageFull in turn), plus in turn one of: Ok(0) for good (partial or not), 7 octets per call, 1 octet per call then Ok(0), 4096 per call, an error that happens once (later calls succeed). "
        "Then sinks that never fail and take 1, 2, 3, 7, 61, 1000, 4096 octets per call, each also with every third call answered by ErrorKind::Interrupted. Law: Ok(()) implies sink contents == reference; anything else must be Err. "
        "An Err although everything arrived, and an Err from a sink that merely takes few octets per call, are counted only. evaluations += one per write into a model sink and per to_xml_* comparison. Signature: (message label, length class)."
    ),
    assumptions=[
        "protocol-valid field values = printable ASCII strings where the API takes a string, handles matching RFC 8183's pattern, URIs accepted by the uri parsers, canonical resource sets, whole-second times in years 0001..9999, non-empty payloads; control characters and non-ASCII only occur in the parser-robustness part",
        "values the API admits but the protocols do not are generated and only recorded (observations lenient:*): handle made with the unchecked Handle::new, <publish>/<withdraw> without tag (read back as tag=\"\"), error reply without errors (read back as empty list reply), empty base64 payload (own output rejected), sub-second not_after (truncated to seconds)",
        "well-formedness is decided by python3's xml.parsers.expat (not namespace-aware); if python3 cannot be started the oracle is skipped with a note, never a violation; it is not available under Miri",
        "equality is the message types' own PartialEq (certificates and CSRs compare by their DER)",
        "resource chains built while parsing hostile attribute text are checked by hook H1; a non-canonical chain there is reported under C11:hook-h1:* although the cause lies in the resource text parser (C03)",
        "what an accepted mutant re-encodes to is recorded, not judged (its field values need not be protocol-valid)",
        "a message returned by a decoder for a document whose field values are all protocol-valid is a message constructed through the public API from protocol-valid field values; the round-trip law applies to it (text-level documents); a <publish>/<withdraw> without tag stays lenient there too",
        "lexical forms: which spellings of character data the library's reader accepts is its choice (CDATA, references, comments or PIs inside element text are refused by the unchanged reader; all attribute spellings are accepted) - only what it accepts is judged; the value an XML processor would report for a spelling is recorded in the detail but the decoded field is not compared with it (the statement demands the round trip, not a conformant reader)",
        "white space around element text (literal or pretty-printing) is layout, not content; a spelling that puts tab / CR / LF into a value (character references to them, literal line ends inside an attribute value or inside free text) makes the document lenient:control-character-in-value (recorded only)",
        "length is not part of 'protocol-valid' as far as writing goes: a tag / class name / description above 1024 characters or a URI above 4096 (the bounds of the RELAX NG schemas) must still be written well-formed and, if the library parses it back, equal; only a decode error of the library's own output is then left open (counted under open:longer-than-the-schema-allows)",
        "'is written as well-formed XML' is read for sinks that can fail as: write_xml may only return Ok(()) if the sink holds the complete document (the octets a Vec receives, which the other oracles have judged); the sink model is the contract of std::io::Write (short writes, Interrupted to be retried, any other error, Ok(0)); flush() of the model always succeeds, so a writer cannot learn of a lost write later. What a writer returns when the complete document arrived is left open",
        "a model sink that answers Ok(0) gives up after 10000 such answers in a row and returns an error, so that a writer which keeps calling cannot stall the check; that it happened is recorded (sink:ok0_answered_10000_times_in_a_row), not reported: the statement does not speak about termination of writers",
    ],
    level_text=(
        "Runtime monitoring of the real writers and parsers on generated messages: every written document is judged by an independent XML "
        "parser (expat) and by the round-trip equivalence the property states; the six parsers are run on millions of byte- and tag-level "
        "mutants and random documents under panic capture, natively with overflow checks, under AddressSanitizer, and (XML-only variants, "
        "small sizes) under Miri. The thorough tier ends with 2 minutes of coverage-guided libFuzzer (16 forks, ASan build) on the six parsers with the no-panic oracle. "
        "The input space (all messages, all byte strings) is unbounded, so this is exploration by dense sampling "
        "of the classes named in the rule."
    ),
    level_note=(
        "Sampling, not proof: string fields are ASCII only, lists up to ~600 entries, documents up to ~250 kB; certificate-bearing variants "
        "reuse 3 certificates / 3 CSRs / 2 identity certificates per shard; Miri sees no certificate-bearing variant and no expat verdicts. "
        "Long values: one value per (field, shape, ladder length) and run, plain runs drawn from one alphabet per field kind, lengths on the ladder only (a threshold at, say, 3000 is only met by the runs that happen to cross it); "
        "values above 9000 octets in a third of the (field, shape) pairs per seed. Sinks: every k for documents up to 3000 octets, sampled k above; one failure per write (for good, or once), not sequences of failures; "
        "sinks are synchronous std::io::Write only; the CMS-wrapping entry points (ProvisioningCms / PublicationCms::create) write into their own Vec and are C10's subject."
    ),
    technique="runtime oracle (independent expat parser + round-trip equivalence) over constructor-built messages (incl. values with plain runs of 255 .. 64 Ki + 1 octets around the characters that need an escape, in every field), environment model of io::Write (room for k octets for every k, short writes, Interrupted, Ok(0), one-off errors) under the law Ok(()) => complete document, and over messages decoded from independently written documents with every optional part present/absent and with every attribute value / text node in every lexical form of XML (CDATA, character and entity references, comments, PIs, white space), failures attributed by re-writing the document one spelling at a time; mutation-based and coverage-guided (libFuzzer) parser robustness; ASan + Miri",
    design_ref="DESIGN.md §4 C11",
)
