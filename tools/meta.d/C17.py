prop(
    "C17",
    quick=[("native", 8), ("miri", 4)],
    thorough=[("native", 16), ("miri", 8)],
    level="exploration",
    min_evals={"quick": 30_000_000, "thorough": 560_000_000},
    rule=(
        "Seven workloads, every case judged by oracles written in the harness (proleptic Gregorian calendar by closed form, "
        "cross-checked against a running day counter over all 3 652 059 days; strict RFC 5280 time parser; i64 interval model; "
        "big-integer decimal / minimal DER INTEGER / comparison). "
        "(1) instant -> Time -> encode_varied -> tag must be UTCTime for 1950-2049 else GeneralizedTime, the text must be the strict form naming "
        "the same instant, take_from (and take_opt_from) must give the instant back: thorough = every day of the years 1..9999 at 00:00:00, "
        "12:34:56, 23:59:59 and a seed-dependent fourth second, plus every second of 18 boundary days (pivots 1949/1950/2049/2050, leap days, "
        "range ends, epoch) and of 400 seed-chosen days; quick = every third day, every day of 39 boundary years, every second of 32 days. "
        "(2) decoding through take_from and take_opt_from of TLVs built by the harness: for 40 (quick) / 1000 (thorough) valid 13- and 15-byte "
        "strings every single substitution over all 256 byte values, every double substitution over {0-9 + - space Z z . :}, every truncation, "
        "deletion, insertion, appended byte, seconds-omitted / fraction / offset shapes, other tags; every (month, day) in 00..99 x 00..99 and every "
        "hour / minute / second 00..99 for 15 years; accept <=> oracle accepts and equal instants (valid non-canonical forms and year 0000 are "
        "recorded, not judged). (3) Validity: verify_at over all triples of a 40 / 64 instant pool, trim over all pairs of 144 / 1024 windows "
        "probed with the whole pool and compared with max/min bounds when non-empty, DER round trip of the windows. (4) Serial: boundary-dense "
        "20-octet values (every length x leading octet class, 2^k, 2^k-1, 10^k +-1) plus random: from_array/from_slice, decimal text against the "
        "oracle, from_str back, serde, DER against der::uint_be and decoding, From<u64/u128>, order of neighbours and random pairs. "
        "(5) the encoders into sinks that take fewer octets than offered: Time::encode_varied (both forms), encode_utc_time, "
        "encode_generalized_time, Validity::encode, CrlEntry::encode (serial + time in one element), Serial::encode and Serial's content writer "
        "(PrimitiveContent::write_encoded) are written through bcder's write_encoded, for 12 boundary seconds (year 1, 999/1000, both pivots, "
        "9999) and 27 boundary serials (every significant length class, pad octet or not) plus 6000 / 120000 seed-chosen seconds and 3000 / 40000 "
        "serials, into: a harness sink taking k octets per call for every k = 1..len+1 and seed-chosen varying patterns; a sink with room for r "
        "octets for every r = 0..len that then answers with an error or with Ok(0) (six ways of taking octets before the edge); a sink that answers "
        "exactly one call (every call index) with an error and carries on; &mut [u8] and Cursor<&mut [u8]> of every size 0..len+2; "
        "std::io::BufWriter of capacity 1/4/8/16 over a short-writing sink; sinks answering every 2nd/3rd call with ErrorKind::Interrupted. "
        "Law: Ok(()) only if exactly the octets that arrive in a Vec have arrived (the Vec output itself is compared with harness-written DER: "
        "the canonical time form of the year, der::uint_be, their sequences); any Err is accepted and counted by cause. "
        "(6) the decoders driven through bcder::decode::Source implementations of the harness (c17_source.rs): Time::take_from / take_opt_from, "
        "Validity::take_from, Serial::take_from, CrlEntry::take_from / take_opt_from, RevokedCertificates::take_from (+ iter), TbsCertList::take_from, "
        "Crl::take_from and ManifestContent::take_from, in Mode::Der and Mode::Ber, on DER written by the harness (der.rs + the calendar / strict parser of this "
        "module, so the expected instants and serial octets are known without the library): 48000 / 1200000 valid seconds (12 boundary seconds, pivots, range "
        "ends), the near-valid neighbourhood of 96 / 1200 of them (every single substitution over all 256 byte values, truncations, deletions, insertions, "
        "appended octets, seconds-omitted / fraction / offset / two-terminator shapes, other tags, BER length forms), 24000 / 600000 validity windows (both "
        "forms on either side, a near-valid time on either side, structural variants), the boundary serials of part 4 plus 24000 / 600000 random ones and ten "
        "non-minimal / negative / over-long INTEGER forms of every 16th, 16000 / 320000 CRL entries, revoked lists of 0..40 entries, TBSCertLists, whole CRLs "
        "and manifest contents around them (every fourth with one near-valid time somewhere). Every input goes through: &[u8], Bytes, and the harness source "
        "showing everything at once; showing ceil(n/k)*k octets from the current position per request(n) for k = 1, 2, 7, 13, 16; filling blocks of 2, 7, 13, 16 "
        "octets counted from the start of the input; showing n+1 / n+5 octets per request(n) (slice() shows only what has been made visible; advance / bytes beyond "
        "it panic as the trait documents). Laws: a valid canonical input is accepted with exactly the harness' values through every source; an input containing "
        "a time the strict parser refuses is refused through every source; where the statement leaves the verdict open (year 0000, valid but not canonical "
        "form, BER length forms, odd INTEGER forms, structural variants) every source gives what the slice gives. Valid inputs also go through sources that "
        "return Err once a chosen offset (every offset) is needed: a value may only come out if every octet was delivered. "
        "(7) the decimal text of serial numbers through every reader (c17_text.rs): Serial::from_str, serde over serde_json::from_str / from_reader / "
        "from_value and over the token format of the harness (human-readable and compact, borrowed / transient / owned strings), CrlEntry::from_str with and "
        "without '@time', for the boundary serials plus 24000 / 600000 random ones (magnitudes below 2^64, up to 2^128 and above equally frequent): the canonical "
        "text (oracle decimal and Display) must be accepted by every reader with the same value; the token Serialize produces must read back over every "
        "transport; 30 decorated spellings ('+5', '05', '0005', sixty zeros, '+005', blanks before / after / around, ' +5', '-5', '-05', '5+', '++5', '+-5', "
        "'+ 5', digit groups with _ , and space, '5.0', '5e0', '0x5', trailing NUL / letter, Arabic-Indic and fullwidth digits, fullwidth plus, U+2212, "
        "NBSP) are offered to every reader: acceptance is counted per class, per reader and per magnitude, never judged; judged is only numeric faithfulness - "
        "a spelling with one conventional reading (optional '+', leading zeros, ASCII blanks around) that is accepted must give that number, and a numeral with "
        "a minus sign must not give a serial (other than for -0). "
        "A case signature is (encoding chosen, era, date class) / (every-second day) for part 1, (tag, mutation class = field and character "
        "class or shape, oracle verdict and reason, library verdict) for part 2, (relation of now to both bounds, window empty?) and trim shape "
        "for part 3, (significant length, leading-octet class) for part 4, (encoder, sink kind, element and header/content region in which the sink refuses or whether a call was taken short, "
        "Ok/Err reported) for part 5, (entry point, mode, object, input class, oracle verdict, verdict from the slice, whether the sources agree) and "
        "(entry point, object, kind of source, where it fails, outcome) for part 6, (spelling class, magnitude, significant length class, accepted?) for part 7; "
        "evaluations counts single oracle comparisons (one per sink run in part 5, one per decode in part 6, one per reader call in part 7)."
    ),
    assumptions=[
        "only whole seconds are in scope: Time values with a sub-second part and chrono's leap-second representation are not generated",
        "chrono is used only to build a Time from an instant (DateTime::from_timestamp) and to read the instant back (timestamp()); the calendar arithmetic of the oracle is the harness' own",
        "a strictly formed time that is valid but not the canonical choice for its year (GeneralizedTime for 1950-2049) may be accepted or rejected; year 0000 may be accepted or rejected (observed: accepted)",
        "UTCTime produced by encode_utc_time for years outside 1950-2049 is ambiguous by design and not checked",
        "Serial values with the top bit of octet 0 set are not representable (from_array rejects them, recorded); the text of zero may be '' or '0' (observed: empty string)",
        "TLVs are decoded in bcder Mode::Der; BER length variants are not part of the statement",
        "'encodes' is read as: the octets an encoder delivers do not depend on how the io::Write it is given takes them, and Ok(()) means all of them were delivered; which error is reported when the sink refuses, and an error from a sink that took everything (only slowly, or after ErrorKind::Interrupted), are left open (observed: none)",
        "'decodes' is read as: the value a decoder returns depends on the octets, not on how the Source hands them out; the Source contract is the one documented in bcder 0.7 (data becomes visible through request(), slice() is at least as long as the last request's answer, advance() / bytes() stay within it); sources are in-memory with deterministic visibility policies, no source blocks or delivers different octets on a retry",
        "in part 6 the expectation 'accepted' is only set for inputs that are valid under RFC 6487 / 9286 as far as the harness writes them (CRL v2 with AKI and CRL number, revokedCertificates absent when empty, manifests with GeneralizedTime); UTCTime inside a manifest, a present but empty revokedCertificates and every BER / non-minimal form are 'open' (sources must agree, nothing else)",
        "which texts other than the decimal text Serial::from_str must refuse is not part of the statement (DESIGN 12.4): acceptance of decorated spellings is recorded per class ('serial_text_accepted:*', '...by_magnitude:*'), a note is written when acceptance of a class depends on the magnitude; only a wrong number coming out of an accepted conventional numeral is a violation (observed on the unchanged tree: leading zeros accepted, everything else refused; the empty string reads as zero)",
        "sinks are synchronous io::Write implementations of the harness and of std (slice, Cursor, BufWriter); tag and length octets are written by bcder, the content octets by rpki-rs; Mode::Der only",
    ],
    level_text=(
        "Runtime oracles over an enumeration that is complete by day for the whole range 0001-01-01..9999-12-31 (thorough) and by second for "
        "the pivot, leap and range-end days, over the complete single/double substitution neighbourhood of up to 1000 valid time strings, over all "
        "triples/pairs of a boundary-dense instant pool and over boundary-dense and random serial numbers; a Miri stage repeats a subset (Serial::encode_dec "
        "uses from_utf8_unchecked) and a handful of sink runs. The encoders are additionally run against an enumeration of sink behaviours (every per-call "
        "quantum, every refusal offset, every failing call, every slice size) for boundary and sampled values. Enumeration plus independent reference implementations is the natural level for pure value-level properties."
    ),
    level_note="Parts 6 and 7 are environment / input-space enumerations around the same oracles: eleven visibility policies of a Source times every decoder entry point times two modes, and 30 spellings times twelve readers; a decoder that misbehaves only for a policy outside these (for example one that depends on the history of earlier values decoded from the same source) is not covered. Trusts the harness' 60-line calendar and parser (self-tested against external anchors such as 2^31-1 = 2038-01-19T03:14:07Z and against a running day counter); seconds other than the enumerated ones are sampled, not enumerated.",
    technique="runtime oracles (independent calendar, strict time parser, interval model, big-integer model) over exhaustive-by-day enumeration and mutation neighbourhoods; encoders swept over short-writing, refusing, interrupting and fixed-size sinks (fault enumeration per offset / call); decoders swept over lazily delivering, generous and failing Source implementations; serial text over every reader and decorated spellings + Miri",
    design_ref="DESIGN.md §4 C17",
    exhaustive_scope="thorough tier, native stage: every day of the years 1..9999 at 00:00:00, 12:34:56 and 23:59:59 through encode_varied / take_from (tag choice and instant); everything else is sampled or bounded as described in the rule",
)
