prop(
    "C14",
    quick=[("native", 16)],
    thorough=[("native", 16), ("asan", 8), ("miri", 4)],
    level="exploration",
    min_evals={"quick": 3_000_000, "thorough": 150_000_000},
    rule=(
        "manifest eContent assembled by the harness' own DER/BER writer: 0..2000 entries (classes 0 / 1 / 2-10 / 11-100 / 101-500 / 501-2000), "
        "file names from 9 valid shapes (plain, A-_9.CER style, 1-char stem, long stems up to the 1100-octet name, dash/underscore-only, digits-only, upper-case extension, key-identifier-like) "
        "and 36 hostile shapes (a/b.roa, /a.roa, a.roa/, ../x.cer, '..', '.', a..roa, a.b.roa, a.roa., extensions of 0/1/2/4/1000 letters, a.r0a, a.r-a, no dot, empty, backslash, %2f, space, NUL, "
        "bytes >= 0x80, UTF-8, control characters, punctuation, random strings over the hostile alphabet of 0..1100 octets, one slash in 1100 octets, single-byte mutations of valid names in stem and extension, "
        "absolute rsync URI, empty stem '.roa') placed first / middle / last / only; hash BIT STRINGs of 0..64 octets with 0..7 unused bits (DER-valid and not); thisUpdate/nextUpdate later / equal / 1 s reversed / reversed, "
        "GeneralizedTime and UTCTime, boundary instants and malformed texts; manifest numbers at 0, 127/128, 2^63, 2^64-1, 2^159-1, 2^159, 2^160, negative, non-minimal, empty; version absent / [0] 0 / [0] 1; "
        "wrong hash algorithm; 17 structural defects; 8 BER-only encodings (indefinite lengths, non-minimal lengths, segmented IA5String incl. a hostile name split across segments). "
        "Every eContent is decoded with ManifestContent::take_from in DER mode (Bytes and slice sources) and BER mode; every fifth also inside a complete CMS SignedData assembled and signed by the harness "
        "(plain, NULL digest parameter, sha256WithRSA, segmented eContent, wrong content type) through Manifest::decode strict and relaxed. "
        "For each decoded manifest the oracle judges every listed name, len vs iter count, the yielded entries vs the encoded ones, time order, iter_uris over up to 7 base URIs (with/without trailing slash, nested, "
        "upper-case scheme/authority, file-like) and ManifestHash::verify for entries whose hash is SHA-256(data), one bit off, truncated, extended, empty or of other data; plus ManifestHash::new over the same relations "
        "and all 256 single-bit differences of one digest. evaluations = single oracle decisions (one decode outcome, one name, one URI, one verify, one count/time comparison). "
        "A case signature is (decode path, plan, name shape @ position, accepted / rejected-for-the-name, entry-count class, hash-length class, time order) for manifests and (base shape, entry-count class, name shape) for URI resolution and "
        "(origin, hash relation, hash-length class, data length, unused bits) for verify; manifests rejected for a reason other than a name are trivial: counted in observations only."
    ),
    assumptions=[
        "name grammar taken from the property statement: [A-Za-z0-9_-]+ '.' [A-Za-z]{3}; an empty stem ('.roa'), which RFC 9286 forbids but the statement does not clearly, is counted (observation empty_stem_names_accepted), not asserted",
        "SHA-256 oracle is aws-lc-rs called directly by the harness; a listed hash with unused bits > 0 is only checked in the direction 'verify Ok implies equal octets'",
        "decoder panics while decoding (not while iterating/resolving) are recorded as observations and left to C04",
        "the EE certificate inside the signed manifests is issued with the library's TbsCert under the harness key pool; signatures over the signed attributes come from aws-lc-rs directly; Manifest::decode does not verify them, a sample is additionally validated under the issuing CA as an observation",
        "Miri stage covers the content-only path (take_from, iter, iter_uris) without hashing or signatures",
    ],
    level_text=(
        "Runtime oracle written from the property statement over generated manifests whose hostile names, entry counts, hash shapes, times and numbers are boundary-dense; "
        "the same workload is repeated under AddressSanitizer (including the aws-lc digest and the signed-object path) and, for the content-only path, under Miri. "
        "Exploration is the adequate level: the input space (all IA5 strings x list shapes) is unbounded, the risk is a missing or inconsistent check on one code path, which shape-directed generation reaches directly."
    ),
    level_note="Sampled, not exhaustive: names are drawn from 45 shape classes and random strings; a hostile name outside these classes that slips through only one of the two decoders would be missed. Evidence lists per-reason rejection counts so that acceptance/rejection of each class is visible.",
    technique="runtime oracle over an independent DER/BER + CMS encoder, ASan and Miri on the same workload",
    design_ref="DESIGN.md §4 C14",
)
