prop(
    "C14",
    quick=[("native", 16), ("compat", 16)],
    thorough=[("native", 16), ("asan", 8), ("miri", 4), ("compat", 16)],
    level="exploration",
    min_evals={"quick": 15_000_000, "thorough": 480_000_000},
    rule=(
        "manifest eContent assembled by the harness' own DER/BER writer: 0..2000 entries (classes 0 / 1 / 2-10 / 11-100 / 101-500 / 501-2000), "
        "file names from 9 valid shapes (plain, A-_9.CER style, 1-char stem, long stems up to the 1100-octet name, dash/underscore-only, digits-only, upper-case extension, key-identifier-like) "
        "and 36 hostile shapes (a/b.roa, /a.roa, a.roa/, ../x.cer, '..', '.', a..roa, a.b.roa, a.roa., extensions of 0/1/2/4/1000 letters, a.r0a, a.r-a, no dot, empty, backslash, %2f, space, NUL, "
        "bytes >= 0x80, UTF-8, control characters, punctuation, random strings over the hostile alphabet of 0..1100 octets, one slash in 1100 octets, single-byte mutations of valid names in stem and extension, "
        "absolute rsync URI, empty stem '.roa') placed first / middle / last / only; hash BIT STRINGs of 0..64 octets with 0..7 unused bits (DER-valid and not); thisUpdate/nextUpdate later / equal / 1 s reversed / reversed, "
        "GeneralizedTime and UTCTime, boundary instants and malformed texts; manifest numbers at 0, 127/128, 2^63, 2^64-1, 2^159-1, 2^159, 2^160, negative, non-minimal, empty; version absent / [0] 0 / [0] 1; "
        "wrong hash algorithm; 17 structural defects; 8 BER-only encodings (indefinite lengths, non-minimal lengths, segmented IA5String incl. a hostile name split across segments). "
        "Every eContent is decoded with ManifestContent::take_from in DER mode (Bytes and slice sources) and BER mode; every fifth also inside a complete CMS SignedData assembled and signed by the harness "
        "(plain, NULL digest parameter, sha256WithRSA, segmented eContent, wrong content type) through Manifest::decode strict and relaxed. "
        "For each decoded manifest the oracle judges every listed name, len vs iter count, the yielded entries vs the encoded ones, time order, iter_uris over up to 7 base URIs (with/without trailing slash, nested, "
        "upper-case scheme/authority, file-like) and ManifestHash::verify for entries whose hash is SHA-256(data), one bit off, truncated, extended, empty or of other data; plus ManifestHash::new over the same relations "
        "and all 256 single-bit differences of one digest. evaluations = single oracle decisions (one decode outcome, one name, one URI, one verify, one count/time comparison). "
        "Second workload (native and ASan stages; 6 400 / 160 000 object cases): the manifest is tied to its own signed object. Per case an EE certificate is issued with chosen URIs "
        "(SIA signedObject, CRL distribution point, AIA caIssuers; last segments drawn from the valid name shapes, usual or other extensions, mixed case) and a chosen validity window, and the file list "
        "contains names related to those URIs: the manifest's own file name (once / only entry / twice or three times / every entry), the CRL's and the issuer certificate's file name, all three, case variants of them, "
        "names one edit away, a directory segment, the module or the authority of the URI (e.g. example.net) - first / middle / last / only / several positions, one case in twelve with a hostile name as well. "
        "The EE window is placed relative to thisUpdate..nextUpdate (interval 0 s .. 1 y): covering, equal, inside, before (by 1 s, by more, ending exactly at thisUpdate), overlapping the start or the end, "
        "starting at nextUpdate, after (by 1 s, by more), a single instant; five further layouts use a fixed window 2024..2124 so that the entry points reading the clock themselves can accept. "
        "Each object goes through ManifestContent::take_from, Manifest::decode strict and relaxed (Bytes and slice sources; CMS variants as above), the Deref / AsRef / Borrow / Clone views, "
        "to_captured -> decode again, content encode_ref -> take_from, serde round trips through the harness token format (human-readable and compact, two of the six transports each) and serde_json, "
        "Manifest::validate_at under the issuing CA at notBefore / mid-window / notAfter in both modes, Manifest::validate, SignedObject::decode + decode_content and SignedObject::process. "
        "Every content obtained that way - in particular the one handed back by validation - is held to the same laws as the decode result (names, len vs iter count, entries vs encoded, time order, "
        "iter_uris over the standard bases plus the EE certificate's own URIs: directory of the signedObject, the signedObject URI itself, CRL URI, caIssuers URI; verify), with the entry point in the violation signature "
        "(suffix :content-returned-by-validation, :after-serde-round-trip, :after-re-encoding, :via-signed-object, :through-a-view-or-clone); the returned content is also compared field by field "
        "(manifest number, times, algorithm, len, names, hashes) with content() before validation and differences are counted as observations object:returned-content-differs-from-decoded-content:<field>. "
        "Object case signatures: (path, relation @ position, accepted / rejected-for-name, entry-count class, CMS variant), (serde transport, relation @ position, entry-count class) and "
        "(validation path, EE window layout, instant of validation, relation, entry-count class, order of the returned times, equal to content() or not). "
        "A case signature of the first workload is (decode path, plan, name shape @ position, accepted / rejected-for-the-name, entry-count class, hash-length class, time order) for manifests and (base shape, entry-count class, name shape) for URI resolution and "
        "(origin, hash relation, hash-length class, data length, unused bits) for verify; manifests rejected for a reason other than a name are trivial: counted in observations only. "
        "Third workload (c14_doors.rs; 6 400 / 128 000 cases native, 800 / 6 400 under ASan, 16 under Miri for the content doors): every door through which a Manifest or ManifestContent comes into being is fed the same "
        "manifest from the independent encoder - 0..300 valid entries plus 0 (one case in five, control), 1 or 2-4 hostile names at first / middle / last / only position, half of them drawn from the shapes the family is about "
        "(../x.cer, a/b.roa, NUL inside / after the extension, empty, 1100 octets with one slash, over-long names of 1 101 .. 70 000 octets that carry a slash, a chain of ../, a 4-letter extension at the very end or a NUL after a valid prefix, "
        "absolute rsync URI, '..', two dots, no dot, space), the other half from all 36 hostile shapes; one hostile name in twelve is a BER constructed string; one control in ten lists a valid name of 1 101 .. 70 000 octets; "
        "one case in ten has thisUpdate after nextUpdate. The eContent is wrapped into a CMS SignedData by the harness (plain three in four, else NULL digest parameter / sha256WithRSA / segmented eContent) and goes through: "
        "ManifestContent::take_from via Mode::Der and Mode::Ber (Bytes and slice sources); Manifest::decode strict and relaxed (Bytes and slice sources); SignedObject::decode / decode_if_type / take_from strict and relaxed (rotating with the case) followed by decode_content(take_from); "
        "<Manifest as Deserialize> fed the base64 text of the signed object (encoder of the harness, JSON text written by hand, no serialiser involved) through serde_json::from_str, from_str with escapes (\\u00XX, \\/), from_slice, from_reader, "
        "from_value, inside an array and inside an option, and through all 12 transports of serde_tok (human-readable and compact x borrowed / transient / owned strings x structs as maps / sequences), one transport per case also with the text as a "
        "byte token and wrapped in an option. Whatever a door hands out is judged by the same oracle as a decode result (names, len vs iter count, iter and iter_uris without panic - iter_uris is probed on its own when iter panicked -, URIs inside the base, "
        "entries vs encoded, time order, verify), with the door in the signature (suffix :door-take-from-der / -ber, :door-manifest-decode-strict / -relaxed, :door-signed-object-strict- / -relaxed-decode-content, :door-serde-json, "
        ":door-serde-human-readable-format, :door-serde-compact-format; panics as C14:panic:iter:door-...:<file:line>). A door that refuses is fine. Observations door:<door>:accepted|rejected:<valid|hostile|empty-stem> and "
        "doors:<what is wrong in the model>:<refused-by-every-door | accepted-by-every-door | accepted-only-by:<doors>> record which doors accept what, doors:hostile-shape-refused-by-every-door:<shape> per name shape. "
        "The five door groups of a case run one after the other on one thread, the group that goes first rotates, so every door is also used right after each other group has refused or accepted. "
        "Door case signatures: (door incl. source / transport, name shape, accepted / rejected-for-the-name <reason>) and (door group, number of hostile names @ position, outcome, entry-count class). "
        "Stage compat: the same binary built with the harness feature compat (= rpki-rs built with its own compat feature, which relaxes decoding for objects written by earlier versions); all three workloads run again, "
        "the first two and the constructed hashes on a quarter of the native budget, the door workload in full (observation build:rpki-feature-compat:shards counts the shards of that build)."
    ),
    assumptions=[
        "name grammar taken from the property statement: [A-Za-z0-9_-]+ '.' [A-Za-z]{3}; an empty stem ('.roa'), which RFC 9286 forbids but the statement does not clearly, is counted (observation empty_stem_names_accepted), not asserted",
        "SHA-256 oracle is aws-lc-rs called directly by the harness; a listed hash with unused bits > 0 is only checked in the direction 'verify Ok implies equal octets'",
        "decoder panics while decoding (not while iterating/resolving) are recorded as observations and left to C04",
        "the EE certificate inside the signed manifests is issued with the library's TbsCert under the harness key pool; signatures over the signed attributes come from aws-lc-rs directly; Manifest::decode does not verify them, a sample is additionally validated under the issuing CA as an observation",
        "object workload: the per-case EE certificates come from the library's TbsCert as well (window and URIs chosen by the harness); validation uses the CA certificate validated once as trust anchor at 2030-06-01, "
        "so only the EE window decides acceptance at the chosen instants; a validation that refuses is an observation (object:validation-failed:<reason>), never a violation",
        "Manifest::validate and SignedObject::process read the clock themselves: their cases use an EE window 2024-01-01..2124-01-01 with the manifest interval before / inside / after / across its ends; "
        "if the clock is outside that window they refuse, a note says so and only validate_at has been observed. No verdict depends on the clock",
        "a returned content whose times differ from content() but are still ordered is counted, not asserted: the statement fixes the order, not the values; entries are asserted against what was encoded",
        "hash verification of list entries is only judged for entries that are the encoded entry of the same index (a list that differs from the encoded one is reported as such, once)",
        "Miri stage covers the content-only path (take_from, iter, iter_uris) without hashing or signatures",
        "door workload: the expectation for what a door hands out never comes from another door; doors disagreeing on acceptance (strict doors refuse BER encodings, relaxed ones do not) is an observation. "
        "A door refusing a manifest that is valid in the model is an observation (door:<door>:model-valid-but-rejected); a panic while a door decodes (not while its result is iterated or resolved) is left to C04 like in the other workloads",
        "door workload: constructors that do not decode anything (ManifestContent::new, into_manifest) are not doors in the sense of the statement ('every manifest the library decodes') and are not judged",
        "library behaviour that exists only under the crate's `compat` feature is observed in stage compat only (native build conventions, no sanitizer); the other stages see the build without it",
    ],
    level_text=(
        "Runtime oracle written from the property statement over generated manifests whose hostile names, entry counts, hash shapes, times and numbers are boundary-dense; "
        "the same workload is repeated under AddressSanitizer (including the aws-lc digest and the signed-object path) and, for the content-only path, under Miri. "
        "Exploration is the adequate level: the input space (all IA5 strings x list shapes) is unbounded, the risk is a missing or inconsistent check on one code path, which shape-directed generation reaches directly."
    ),
    level_note="Sampled, not exhaustive: names are drawn from 45 shape classes and random strings; a hostile name outside these classes that slips through only one of the two decoders would be missed. Names related to the object are limited to the last segments, one directory / module segment and the authority of the three URIs in the EE certificate, their case variants and one-edit neighbours; 17 window layouts, three instants each. Evidence lists per-reason rejection counts so that acceptance/rejection of each class is visible. Doors: the nine public entry points listed in the rule (with their source / transport variants) are the ones this crate version has; a new entry point creating a Manifest or ManifestContent would have to be added to c14_doors.rs by hand. Serde formats are modelled by serde_json and the 12 serde_tok transports; a format driving the Deserialize impl in yet another way (e.g. deserialize_any-only self-describing binary formats) is not modelled.",
    technique="runtime oracle over an independent DER/BER + CMS encoder; per-case EE certificates (window, SIA/CRLDP/AIA names) tie the file list and the manifest interval to the signed object, every entry point handing out a ManifestContent (decode, views, re-encoding, serde transports, validate / validate_at, SignedObject::process) is held to the same laws; every door creating one from octets or a serde transport (take_from DER/BER, Manifest::decode strict/relaxed, SignedObject::decode + decode_content, Deserialize via serde_json and all serde_tok transports) is fed the same hostile manifests; ASan and Miri on the same workload; a further native stage on a build with the crate's compat feature",
    design_ref="DESIGN.md §4 C14",
)
