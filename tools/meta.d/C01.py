prop(
    "C01",
    quick=[("native", 16)],
    thorough=[("native", 16), ("asan", 8), ("valgrind", 8)],
    level="exploration",
    min_evals={"quick": 200_000, "thorough": 5_000_000},
    rule=(
        "certificate chains TA -> CA^k -> {CA, EE, router} (k in 0..3) built with the library's TbsCert under a pool of RSA keys, encoded, re-decoded and validated top-down; "
        "per certificate and family the resources are missing / inherit / a subset of the issuer's effective set (model) / an overclaim sticking out by one element, lying in a gap or straddling an issuer block; "
        "policy refuse or trim; windows with the evaluation instant on either end exactly. For every accepted link the validated v4/v6/AS blocks are compared with the interval-set model (claimed, trimmed, inherited, empty) and with the issuer's set (subset). "
        "Every second valid link gets single-point tampers that must be rejected: time one second outside either end, AKI missing / other (re-signed), signed by another key while claiming the issuer, SKI bit patched in the TBS and re-signed by the harness, "
        "bit flips inside the TBS bytes and the signature value (sampled; every bit of a few certificates in the thorough tier), validation under another issuer with the same subject name; for trust anchors inherit and a foreign self-signature. "
        "A case signature is (leaf kind, depth, policy, per-family claim shape incl. overclaim kind, expected outcome) or (tamper kind, certificate kind); evaluations count validations and resource comparisons."
    ),
    assumptions=[
        "RSA-2048 (and P-256 public keys for router certificates) only; default key-identifier names",
        "CRL checking is outside this property",
        "certificates are built with the library's own TbsCert encoder (C05 checks it); SKI tampers and re-signing use the harness DER tools and aws-lc-rs directly",
        "flipped inputs that no longer decode count as rejected",
    ],
    level_text=(
        "Runtime accept/reject and resource-set oracle evaluated from the parameters the harness chose (it knows which single input it made non-conforming) and an interval-set model of effective resources, "
        "over tens of thousands (quick) to hundreds of thousands (thorough) of generated chains; ASan and valgrind memcheck repeat a reduced workload so that hostile bytes reach aws-lc under a memory checker. "
        "Exploration is the right level: chains, resource sets and tamper positions are sampled from an unbounded space."
    ),
    level_note="Trusts aws-lc-rs for signing on the harness side, the interval model and the harness DER reader; sampled.",
    technique="accept/reject + resource-set oracle over generated chains and single-point tampers; ASan, valgrind",
    design_ref="DESIGN.md §4 C01",
)
