prop(
    "C01",
    quick=[("native", 16)],
    thorough=[("native", 16), ("asan", 8), ("valgrind", 8)],
    level="exploration",
    min_evals={"quick": 800_000, "thorough": 5_000_000},
    rule=(
        "certificate chains TA -> CA^k -> {CA, EE, router} (k in 0..3) built with the library's TbsCert under a pool of RSA keys, encoded, re-decoded and validated top-down; "
        "per certificate and family the resources are missing / inherit / a subset of the issuer's effective set (model) / an overclaim sticking out by one element, lying in a gap or straddling an issuer block; "
        "policy refuse or trim; windows with the evaluation instant on either end exactly. For every accepted link the validated v4/v6/AS blocks are compared with the interval-set model (claimed, trimmed, inherited, empty) and with the issuer's set (subset). "
        "Every second valid link gets single-point tampers that must be rejected: time one second outside either end, AKI missing / other (re-signed), signed by another key while claiming the issuer, SKI bit patched in the TBS and re-signed by the harness, "
        "bit flips inside the TBS bytes and the signature value (sampled; every bit of a few certificates in the thorough tier), validation under another issuer with the same subject name; for trust anchors inherit and a foreign self-signature. "
        "Certificates written by the independent encoder: every second valid link is additionally re-issued (TBS patched with the harness DER writer, signed with the issuer key through aws-lc-rs) with its RFC 3779 IP or AS extension rewritten in shapes the builder cannot produce - "
        "an address family (or the asnum choice) one, two or three times in any order, IPv6 before IPv4, empty lists, inherit next to blocks, an rdi member, block lists reversed / adjacent / overlapping / in range form, the whole extension present twice - with blocks inside the issuer or sticking out; "
        "such a certificate may be rejected, but if it is accepted the union of everything written is the claim: no-overclaim with anything outside must fail, the validated set must equal that union (cut to the issuer under trim) and stay inside the issuer; the canonical shape must be accepted with exactly the model's set. "
        "Every third valid link gets its AKI keyIdentifier / SKI rewritten with 0, 1, 10, 19, 21, 24, 32, 40 octets whose leading or trailing octets are the required value (primitive and constructed OCTET STRING in several segmentations), or the extension added a second time with another identifier: must be rejected on all routes (the right 20 octets in constructed form are only recorded). "
        "Key identifiers derived from the RIGHT key in another way than the profile prescribes (SHA-1 over the subjectPublicKey bits): the harness reads each key's SubjectPublicKeyInfo with its own DER reader and computes a dictionary "
        "sources {key bits, whole SubjectPublicKeyInfo, its content, BIT STRING content with the unused-bits octet, BIT STRING TLV, RSA modulus (magnitude / INTEGER content / TLV), modulus and exponent; for P-256 router keys the point without prefix, the x coordinate, the compressed point} x "
        "hashes {SHA-1, SHA-224, SHA-256, SHA-384, SHA-512, SHA-512/256, SHA3-256} x forms {whole hash, leftmost 160 bits (RFC 7093), rightmost 160 bits; for SHA-1 also RFC 5280 method 2 '0100'+60 bits as 8 octets and zero-padded to 20 on either side} "
        "(197 entries per RSA key, 175 per router key; the prescribed derivation itself is excluded), plus the neighbours' identifiers (SKI := the issuer's SKI, AKI := the certificate's own SKI, AKI := the issuer's AKI). "
        "Every shard builds a chain TA -> CA -> {CA, EE, router} of its own (6 chains per shard in the thorough native stage; eras from 1955 to 2060) and re-issues the trust anchor once per entry with that SKI and each of the three leaves once per entry with that SKI (dictionary of the subject key) "
        "and once per entry with that AKI (dictionary of the issuer key), the extension replaced where it stands and the result signed with the right issuer key, so that nothing but the key identifier comparison can object; a control (the required value spliced the same way reproduces the issued certificate byte for byte, and it passes every entry point) goes first. "
        "Each such certificate goes through every public route, strict and relaxed: validate_{ta,ca,ee,detached_ee,router}_at, inspect_X followed by verify_X_at (for a trust anchor both verify_ta_at and verify_ta_ref_at, for an EE certificate both inspect_ee and inspect_detached_ee), and validate_X_at after a serde round trip; "
        "a second chain per shard whose windows lie around the wall clock does the same for the 20-octet entries over key bits / SubjectPublicKeyInfo through the entry points without _at (validate_X, inspect_X + verify_X, verify_ta_ref). Any acceptance is a violation; "
        "its signature names the identifier (ski/aki), the derivation, the certificate kind, under which strictness and through which entry points it got through (all of them, or the list). "
        "Every third valid link of the generated chains additionally gets one random dictionary entry as its SKI or AKI (any depth, era, policy). A trust anchor with an added AKI holding a derived value is only recorded (the statement does not mention it). "
        "A case signature is (identifier, derivation, certificate kind, clock) for these, (leaf kind, depth, policy, per-family claim shape incl. overclaim kind, expected outcome), (tamper kind, certificate kind), (encoder shape: kind, policy, entry pattern, inside/outside, departures from builder output) or (key identifier, length, anchor, encoding, kind); evaluations count validations and resource comparisons."
        "Trust anchors with 15 .. 600 blocks per family (short blocks, single elements, gaps of 1-7) make the issuance check, trimming and the encoder shapes run on long issuer chains. Wall-clock edges (four native shards, one certificate kind each): certificates whose validity ends / starts three seconds from now are validated through every entry point that reads the clock itself at eight moments from 1.5 s before to 1.6 s after the edge; a call is judged only when the harness' own clock readings before and after it lie on the same side of the edge. "
    ),
    assumptions=[
        "RSA-2048 (and P-256 public keys for router certificates) only; default key-identifier names",
        "CRL checking is outside this property",
        "certificates are built with the library's own TbsCert encoder (C05 checks it); SKI tampers, rewritten resource / key identifier extensions and re-signing use the harness DER tools and aws-lc-rs directly",
        "for a resource extension in a shape RFC 3779 / RFC 6487 do not allow (repeated family, wrong order, empty list, non-canonical block list) rejection and acceptance are both fine; on acceptance every written block counts as claimed",
        "flipped inputs that no longer decode count as rejected",
        "'the hash of its key' is read as RFC 6487 4.8.2 has it: the 160-bit SHA-1 hash of the subjectPublicKey bits; the harness computes it (and every alternative derivation) itself from the SubjectPublicKeyInfo octets with aws-lc-rs, never through PublicKey::key_identifier",
        "the dictionary of alternative derivations is finite (listed in the rule): a validator that accepts an identifier computed in a way outside it is not observed by this part",
        "the entry points without _at read the machine's clock: their chain is built around it; only rejection is demanded there, a control that fails at the wall clock is recorded and the sub-workload skipped",
        "wall-clock probes assume the system clock does not jump by more than the probe spacing during the ten seconds they take; a probe whose two readings straddle an edge gives no verdict",
    ],
    level_text=(
        "Runtime accept/reject and resource-set oracle evaluated from the parameters the harness chose (it knows which single input it made non-conforming) and an interval-set model of effective resources, "
        "over tens of thousands (quick) to hundreds of thousands (thorough) of generated chains; ASan and valgrind memcheck repeat a reduced workload so that hostile bytes reach aws-lc under a memory checker. "
        "Exploration is the right level: chains, resource sets and tamper positions are sampled from an unbounded space."
    ),
    level_note="Trusts aws-lc-rs for signing on the harness side, the interval model and the harness DER reader; sampled.",
    technique="accept/reject + resource-set oracle over generated chains, single-point tampers and issuer-signed certificates whose extensions come from an independent DER encoder; a dictionary of key identifiers derived from the right key in other ways x every validate / inspect+verify entry point x strict and relaxed; ASan, valgrind",
    design_ref="DESIGN.md §4 C01",
)
