prop(
    "C01",
    quick=[("native", 16)],
    thorough=[("native", 16), ("asan", 8), ("valgrind", 8)],
    level="exploration",
    min_evals={"quick": 600_000, "thorough": 5_000_000},
    rule=(
        "certificate chains TA -> CA^k -> {CA, EE, router} (k in 0..3) built with the library's TbsCert under a pool of RSA keys, encoded, re-decoded and validated top-down; "
        "per certificate and family the resources are missing / inherit / a subset of the issuer's effective set (model) / an overclaim sticking out by one element, lying in a gap or straddling an issuer block; "
        "policy refuse or trim; windows with the evaluation instant on either end exactly. For every accepted link the validated v4/v6/AS blocks are compared with the interval-set model (claimed, trimmed, inherited, empty) and with the issuer's set (subset). "
        "Every second valid link gets single-point tampers that must be rejected: time one second outside either end, AKI missing / other (re-signed), signed by another key while claiming the issuer, SKI bit patched in the TBS and re-signed by the harness, "
        "bit flips inside the TBS bytes and the signature value (sampled; every bit of a few certificates in the thorough tier), validation under another issuer with the same subject name; for trust anchors inherit and a foreign self-signature. "
        "Certificates written by the independent encoder: every second valid link is additionally re-issued (TBS patched with the harness DER writer, signed with the issuer key through aws-lc-rs) with its RFC 3779 IP or AS extension rewritten in shapes the builder cannot produce - "
        "an address family (or the asnum choice) one, two or three times in any order, IPv6 before IPv4, empty lists, inherit next to blocks, an rdi member, block lists reversed / adjacent / overlapping / in range form, the whole extension present twice - with blocks inside the issuer or sticking out; "
        "such a certificate may be rejected, but if it is accepted the union of everything written is the claim: no-overclaim with anything outside must fail, the validated set must equal that union (cut to the issuer under trim) and stay inside the issuer; the canonical shape must be accepted with exactly the model's set. "
        "Every third valid link gets its AKI keyIdentifier / SKI rewritten with 0, 1, 10, 19, 21, 24, 32, 40 octets whose leading or trailing octets are the required value (primitive and constructed OCTET STRING in several segmentations), or the extension added a second time with another identifier: must be rejected on all routes (the right 20 octets in constructed form are only recorded). "
        "A case signature is (leaf kind, depth, policy, per-family claim shape incl. overclaim kind, expected outcome), (tamper kind, certificate kind), (encoder shape: kind, policy, entry pattern, inside/outside, departures from builder output) or (key identifier, length, anchor, encoding, kind); evaluations count validations and resource comparisons."
    ),
    assumptions=[
        "RSA-2048 (and P-256 public keys for router certificates) only; default key-identifier names",
        "CRL checking is outside this property",
        "certificates are built with the library's own TbsCert encoder (C05 checks it); SKI tampers, rewritten resource / key identifier extensions and re-signing use the harness DER tools and aws-lc-rs directly",
        "for a resource extension in a shape RFC 3779 / RFC 6487 do not allow (repeated family, wrong order, empty list, non-canonical block list) rejection and acceptance are both fine; on acceptance every written block counts as claimed",
        "flipped inputs that no longer decode count as rejected",
    ],
    level_text=(
        "Runtime accept/reject and resource-set oracle evaluated from the parameters the harness chose (it knows which single input it made non-conforming) and an interval-set model of effective resources, "
        "over tens of thousands (quick) to hundreds of thousands (thorough) of generated chains; ASan and valgrind memcheck repeat a reduced workload so that hostile bytes reach aws-lc under a memory checker. "
        "Exploration is the right level: chains, resource sets and tamper positions are sampled from an unbounded space."
    ),
    level_note="Trusts aws-lc-rs for signing on the harness side, the interval model and the harness DER reader; sampled.",
    technique="accept/reject + resource-set oracle over generated chains, single-point tampers and issuer-signed certificates whose extensions come from an independent DER encoder; ASan, valgrind",
    design_ref="DESIGN.md §4 C01",
)
