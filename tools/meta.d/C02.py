prop(
    "C02",
    quick=[("native", 16)],
    thorough=[("native", 16), ("asan", 8), ("valgrind", 4)],
    level="exploration",
    min_evals={"quick": 60000, "thorough": 250000},
    rule=(
        "objects of kind ROA / ASPA / manifest / generic content type are assembled by the harness' own RFC 5652/6488 encoder "
        "(own eContent encoders, signatures straight from aws-lc-rs over 0x31 || DER length || attributes) around EE certificates issued "
        "with the library's TbsCert under a key pool, then decoded and validated by the library (Roa/Aspa::process, Manifest/SignedObject::validate_at, "
        "SignedObject::process). Structured case list per round: ROA prefix / ASPA customer versus EE resources (inside, block edges, outside by one, "
        "straddling, second family, Trim-cut claims, Refuse overclaim, IP resources or inheritance on ASPA EEs) in strict and relaxed mode; all 6 attribute "
        "orders under both signature conventions; signed-attribute totals 126..130, 200, 254..258, 300, 400, 1000, 5000 and random (via the content type OID length); "
        "24 single violations (12 asserted: digest, signature key, [0]-tagged signature input, sid, duplicate / missing digest; 11 only recorded); EE expired / not yet valid / "
        "foreign issuer / forged signature / overclaim; evaluation time at notBefore/notAfter and 1 s outside; 16 BER re-encodings; CRL callback Ok / Err; "
        "single-bit flips classified through the harness' DER reader into covered regions (eContent, signedAttrs, signature, sid, digest OIDs, EE TBS, EE signature; rejection asserted) "
        "and uncovered ones (recorded) - thorough enumerates every covered bit of 6 objects. "
        "eContent shapes from the independent encoder that the library's builders cannot produce: ROAs with an address family zero to three times in any order, empty address lists, repeated prefixes, prefixes inside / just outside / one bit wider than the EE's validated blocks; ASPAs with providers descending, repeated, containing the customer or absent; "
        "manifests with repeated entries, two hashes for one name, number 0 or 20 octets, thisUpdate = nextUpdate - such an object may be rejected, but if accepted every prefix / the customer written anywhere in the signed content must be covered by the EE certificate's validated resources, and (for every accepted ROA / ASPA / manifest of the whole run) the accessors must report exactly what the harness' own DER reader finds in the signed content. "
        "Signer identifier shapes: the sid of a valid object of each kind rewritten with 0, 1, 10, 19, 21, 24, 32, 40 octets having the SKI as prefix or suffix, the SKI twice, halves swapped, one bit off - primitive and as constructed OCTET STRING (1xN, halves, 20+rest, rest+20, random split, nested, empty piece, indefinite length), strict and relaxed: all must be rejected; the right 20 octets in constructed form are recorded. "
        "A case signature is (kind, attribute order, signed-attrs size class <128 / 128..255 / >=256, strictness, violated condition or none, coverage relation, BER variant) "
        "or (flip, kind, region, decoded?) or (eContent shape, kind, family / member pattern, mode, covered?) or (sid shape, kind, octets, encoding, mode); undecodable flips count as rejected. evaluations = library decode+validate runs judged by the oracle."
        "EE certificates off the RFC 6487 profile (no SIA, rpkiNotify only, signedObject plus caRepository, cA true, cA false present, CA key usage, no CRL / issuer pointer, router EKU, no AKI), correctly signed by the CA, under every kind of object: Cert::validate_ee_at is asked about the very same certificate and the object must be rejected whenever it refuses. "
    ),
    assumptions=[
        "keys are RSA-2048 from a cached pool; digest SHA-256; EE certificates come from the library's own builder (their validation is C01's subject)",
        "Roa::process / Aspa::process / SignedObject::process read the wall clock inside the library: their EE certificates are valid from now-30d to now+365d (or end a day before / start a day after now), so the verdict does not depend on the exact time",
        "signed attributes other than content-type, message-digest, signing-time (binary-signing-time, unknown ones), duplicated identical attributes, missing content-type / signing-time, NULL digest parameters, a ROA EE with inherited resources and BER encodings in strict mode are outside the statement: outcome recorded, not asserted",
        "an unsorted SET OF signedAttrs is run under both signature inputs (as transmitted, DER-sorted); relaxed mode must accept at least one of the two, strict mode is only recorded",
        "the largest signed-attribute set tried is 5000 octets (the library documents a 65535 octet limit)",
        "for EE certificates off the profile the reference is the library's own validate_ee_at (which C01 judges independently): the statement defines the condition by reference to C01",
    ],
    level_text=(
        "Runtime oracle: the conjunction in the statement is evaluated from the parameters the harness chose for each object it assembled itself, and compared with the library's accept / reject. "
        "Quick runs about 60 000 objects, 40 000 classified bit flips, 16 000 eContent shapes and 1 100 signer-identifier shapes (native); thorough about 400 000 objects with a larger random share (ROA / ASPA placements, sizes), "
        "every covered bit of six objects (about 90 000 flips), an ASan stage of 12 000 objects + 16 000 flips and valgrind memcheck on 80 objects + 1 600 tampered decodes (hostile bytes into aws-lc). Sampling with boundary-dense tables is the reachable level for a property quantified over all contents, sizes and tamper points."
    ),
    level_note="Trusts the harness' 1 000-line CMS/X.509 writer and aws-lc-rs as signing/digest oracle; explores a structured sample, not all objects.",
    technique="runtime oracle over independently encoded CMS objects (incl. eContent and signer-identifier shapes no builder produces, reported content compared with an independent reader) + single-point tampering + classified bit flips; ASan; valgrind memcheck",
    design_ref="DESIGN.md §4 C02",
)
