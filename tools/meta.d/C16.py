prop(
    "C16",
    quick=[("native", 4), ("miri", 1)],
    thorough=[("native", 16), ("asan", 4), ("miri", 2)],
    level="exploration",
    min_evals={"quick": 6_500_000, "thorough": 10_000_000_000},
    rule=(
        "pairs (a, a+d): thorough enumerates every d in 0..2^32 from 7 bases (exhaustive for those bases), "
        "quick every d within 2^16 of 0, 2^31 and 2^32 from 8 bases plus a prime stride over the whole range; every pair is judged by the "
        "RFC 1982 table for partial_cmp in both directions AND for the whole operator set of the type (==, !=, <, <=, >, >= in both operand "
        "orders, Serial == u32 and Serial != u32 in both roles, PartialEq::ne / PartialOrd::ge by name: 18 results per pair, counter "
        "operator_results_compared; operator_rows_at_distance_2^31 says how many rows sat exactly on the undefined point); the six distinguished differences 0, +-1, 2^31, "
        "2^31 +- 1 are in addition taken from 400 k further bases (40 M in thorough; random, around 0, around 2^31, multiples of 2^16). A boundary subset "
        "(|d| <= 48 around 0 and 2^31 from the 8 bases and from whatever Default, State::new and Arbitrary hand out, plus 2048 stride pairs) "
        "also goes through the consumers of the traits: Option, slice, tuple and reference comparisons, Display / Debug (equal serials print "
        "alike, different ones do not) and hash under two hashers (counter consumer_rows). "
        "add(n) over a boundary-dense n set x bases plus random (a, n); State::inc five times in a row across both wraps. "
        "Conversions: every way to make a Serial from an integer (From, Into, tuple literal, clone, from_be, State::from_parts / "
        "new_with_serial, add, FromStr of the decimal text and of the Display text) holds that integer, compares equal to the others under "
        "Serial and u32 equality and hashes alike (conversion_values). Wire: to_be/from_be over boundary and random values; every PDU with a "
        "serial (bytes 8..12 big-endian, accessor gives it back); the same through partial I/O. "
        "Transport in pieces (c16_wire.rs): (1) the real Server::run over the scripted socket of C08 with a constant source that has a diff "
        "from exactly one state (session, X) and is itself at Y: the client stream 'Serial Query X, Serial Query Y' (laid out by the "
        "independent encoder) is cut at each of the 23 positions with no notification, a notification after settling in the gap, in the same "
        "tick as the piece or as the rest, two cuts in and around each serial field with notifications in the gaps, octet by octet, with the "
        "output blocked and on a socket that delivers on flush, for 20 boundary / all-octets-different serials (120 in thorough) x versions "
        "0-2; one evaluation = one schedule run; the output minus Serial Notify PDUs (each must carry Y) must be Cache Response, the diff "
        "record, End of Data(Y), Cache Response, End of Data(Y) - the source only answers so when it was asked for exactly the serials sent "
        "(server_notify_with_k_of_4_serial_octets_in counts where notifications met the reader). (2) Client::step twice over a reader that "
        "dribbles a valid transcript (9 delivery patterns incl. one octet per read with Pending in between, writes accepted 3 octets at a "
        "time; reset or serial start, versions 0-2, Client::new and with_initial_version): Client::state() is exactly the (session, serial) "
        "of each End of Data, the first Serial Query carries the state given, the next one the serial of the previous End of Data. "
        "(3) every public reader of a PDU holding a serial (Payload::read, EndOfData::read_payload, EndOfDataV0/V1 read / try_read, "
        "SerialNotify try_read / read_payload, Header + SerialQueryPayload) fed in the same patterns. "
        "Source advancing while a connection is open (c16_adv.rs): one case = one connection of the real Server::run over the scripted "
        "socket and a PayloadSource of the harness that keeps the list of serials it has been at (same session), announces one origin per step, "
        "may have forgotten old states, looks states up by plain equality and logs every diff call. The router synchronises (Reset Query / "
        "Serial Query for the current state / Serial Query from an older state), then for each step of the plan the source advances by n and "
        "NotifySender::notify() is fired at the settled, idle connection; depending on the plan the router then sends a Serial Query with the "
        "serial it holds (after each step / at the end / never / every second step). Plans: 14 bases (around 0xFFFFFFFF, 0, 2^31, plain, "
        "octet-asymmetric) x 12 step lists (+1, +0x20, +(2^31-1), several steps, steps of 0, sums reaching 2^31) x 3 synchronisations x 4 query "
        "patterns x history kept / forgotten, versions cycling (all three in thorough), plus 600 random plans (40 k in thorough); one evaluation "
        "= the synchronisation or one step. Oracle: a control (0x1000 -> 0x1001) per version shows that this server sends a Serial Notify for a "
        "plain advance; then every step whose new serial is 1..2^31-1 ahead both of the serial last sent in End of Data and of the serial last "
        "announced must yield a Serial Notify too (server_advance_serial_notify_demanded; more than one is recorded only), every Serial Notify carries session and the "
        "new serial big-endian, the query with the held serial is answered as the source offers for exactly that state (diff with one record per "
        "step since and End of Data with the new serial, or Cache Reset and then the full set), PayloadSource::diff was called with exactly the "
        "(session, serial) sent, every state handed to Socket::update is one that went into an End of Data on the connection. Steps of 0 and steps leaving the router >= 2^31 behind are "
        "recorded (server_advance_notified[..] / serial_notify_seen[..] per relation of old and new serial: plain, across-the-wrap, across-2^31, "
        "same-serial, distance-2^31, ...); an advance by exactly 2^31 must only come out the same from a base and from base + 2^31. "
        "PDU API (c16_api.rs a): every public constructor, accessor, reader, writer and AsMut buffer of rtr::pdu / rtr::state that moves a "
        "session id or serial between a value and octets - listed by hand in the module header, 54 items, "
        "max:pdu_api_items_exercised - on 22 octet-asymmetric serials x 10 sessions and random values, against the octets the independent "
        "encoder of c07_io prescribes and back (readers must give back the octets read). "
        "Idle client (c16_api.rs b): Client::step against a scripted cache on a duplex pipe under the paused tokio clock: the client holds S, "
        "the cache sends Serial Notify N (when idle / in one write with End of Data / after a tenth of the refresh interval; first exchange by "
        "reset or serial query; versions 0-2); the virtual time until the next query is classified (at-once / before-refresh / sat-out-until-refresh "
        "/ no-query, counters client_idle_reaction[difference class][class]). Groups of pairs with one difference N - S: a plain pair first, then "
        "pairs where N is S with octets reversed / halves swapped / two octets swapped (256 and 65536, 0xdeadbeef and 0xefbeadde, random), both "
        "shifted by 1 and by 2^24, and for the differences 1, 2, 0x20, 0x100, 0xFF00, 2^31-1, 2^31, 2^31+1, -1, -256, 0 pairs sitting at the wrap, "
        "at 2^31 and at random places: a member whose reaction class differs from the plain pair's is a violation; the query, when it comes, "
        "must carry S and the state after the exchange must be N. One evaluation = one scenario. "
        "A case signature is (operation, base, difference region 0 / <2^31 / =2^31 / >2^31), (add, wrap?, n class), or for the transport part "
        "(server, version, schedule class, where the notification met the reader, serial class) / (client, version, start, constructor, "
        "payload count, delivery, serial class) / (server-advance, version, synchronisation, step classes, relations crossed, query pattern, "
        "history, base class) / (pdu-api item) / (client-idle, version, difference class, relation of the pair, delivery, first query); "
        "distinct_nontrivial counts those classes, evaluations counts table rows, single oracle "
        "comparisons and schedule / step runs."
    ),
    assumptions=[
        "Serial::add is only specified for n <= 2^31-1; larger n (documented panic) is not exercised",
        "comparison table taken from the property statement / RFC 1982, evaluated on u32 arithmetic written in the harness",
        "at distance 2^31 ('undefined') every order comparison (<, <=, >, >=) is false and != is true, as Rust's PartialOrd/PartialEq contracts require of a type whose partial_cmp is None there",
        "Display / Debug / FromStr are not wire formats: only 'equal serials print alike, different ones differently' and 'text that parses gives the value it spells' are demanded; whether Display is decimal and parses back is recorded (display_is_decimal_u32), not judged",
        "Default / State::new / Arbitrary may hand out any value; it is used as a further base, its being 0 is recorded only",
        "server: the constant source of c08_io answers a Serial Query with its one-record diff iff diff() is called with exactly (session, X); the verdict is read from the server's output, runs that do not settle are not judged (C08 watches liveness)",
        "client: a step that does not complete over a valid transcript is recorded (client_steps_not_completed), not judged - only the state a completed step leaves behind is",
        "server-advance: that a notification at an idle connection yields a Serial Notify at all is C08's subject; C16 only demands that advances RFC 1982 orders the same way are treated the same way as the control advance 0x1000 -> 0x1001 (if the control yields none, missing notifications are not judged and a note is pushed). Notifications without an advance, advances that leave the router 2^31 or more behind and the distance 2^31 itself are recorded, the latter only compared between a base and base + 2^31",
        "server-advance: the source model never returns to a serial it has been at and keeps one session; it is coherent (never reports an older serial than it handed out)",
        "client-idle: whether a client reacts to a Serial Notify at once, later or not at all is not judged (a client ignoring a notification for the serial it already holds, or all notifications, is legitimate); only that the reaction class is the same for all pairs (held, announced) with the same difference modulo 2^32. Virtual time comes from tokio's paused clock, never from the wall clock",
        "pdu-api: the item list was written by hand from src/rtr/pdu.rs and state.rs as they stand; SerialNotify and SerialQuery have no public serial accessor in this tree - an accessor added later is not covered until it is added to the list (its use inside the client / server is what the behavioural workloads see)",
    ],
    level_text=(
        "Runtime oracle (RFC 1982 table written from the statement) over every difference 0..2^32 from seven bases in the thorough tier "
        "(exhaustive for those bases) and boundary windows plus a stride sample in the quick tier, applied to partial_cmp and to every "
        "comparison operator and trait method the type offers; Miri and ASan repeat a boundary subset. For the wire clause the real server "
        "connection and the real client are run over scripted transports that slice the four octets at every position and fire "
        "notifications in the gaps. "
        "Exhaustive enumeration of the one-dimensional difference space is the natural level for a property that depends on the difference only."
    ),
    level_note="Trusts the harness' own 20-line table and Rust integer arithmetic; bases other than the seven enumerated are sampled; the transport schedules are enumerated for single and double cuts, not for every interleaving; source histories are plans of up to 5 advances on one connection with notifications at quiescent points only (notifications racing with queries are C08's and c16_wire's part); the idle client is compared between pairs of equal difference, so a deviation that is the same for every base of a difference is not this property's to report; the PDU API list is hand-written.",
    technique="runtime oracle over exhaustive difference enumeration for every comparison entry point + real server / client over scripted fragmenting transports, an advancing source model and a paused clock + hand-enumerated PDU API against an independent encoder + Miri/ASan",
    design_ref="DESIGN.md §4 C16",
)
