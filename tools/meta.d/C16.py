prop(
    "C16",
    quick=[("native", 4), ("miri", 1)],
    thorough=[("native", 16), ("asan", 4), ("miri", 2)],
    level="exploration",
    min_evals={"quick": 1_000_000, "thorough": 1_000_000_000},
    rule=(
        "pairs (a, a+d): thorough enumerates every d in 0..2^32 from 7 bases (exhaustive for those bases), "
        "quick every d within 2^16 of 0, 2^31 and 2^32 from 8 bases plus a prime stride over the whole range; "
        "add(n) over a boundary-dense n set x bases plus random (a, n); wire conversion over boundary and random values. "
        "A case signature is (operation, base, difference region 0 / <2^31 / =2^31 / >2^31) or (add, wrap?, n class); "
        "distinct_nontrivial counts those classes, evaluations counts single oracle comparisons."
    ),
    assumptions=[
        "Serial::add is only specified for n <= 2^31-1; larger n (documented panic) is not exercised",
        "comparison table taken from the property statement / RFC 1982, evaluated on u32 arithmetic written in the harness",
    ],
    level_text=(
        "Runtime oracle (RFC 1982 table written from the statement) over every difference 0..2^32 from seven bases in the thorough tier "
        "(exhaustive for those bases) and boundary windows plus a stride sample in the quick tier; Miri and ASan repeat a boundary subset. "
        "Exhaustive enumeration of the one-dimensional difference space is the natural level for a property that depends on the difference only."
    ),
    level_note="Trusts the harness' own 20-line table and Rust integer arithmetic; bases other than the seven enumerated are sampled.",
    technique="runtime oracle over exhaustive difference enumeration + Miri/ASan",
    design_ref="DESIGN.md §4 C16",
)
