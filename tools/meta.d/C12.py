prop(
    "C12",
    quick=[("native", 8), ("miri", 8)],
    thorough=[("native", 16), ("asan", 4), ("miri", 8)],
    level="exploration",
    min_evals={"quick": 50_000_000, "thorough": 1_200_000_000},
    rule=(
        "every string rsync://w and https://w for w over the alphabet {a, A, b, /, ., :, space} up to |w| = 6 (quick) / 7 (thorough) is offered to both parsers "
        "(enumerated disjointly across shards by index), plus two scheme-case variants per scheme and 16 damaged schemes for short w; every accepted URI is checked "
        "against the single-URI laws (text unchanged, accessors recompose and split the text at its slashes, permitted characters, no empty/dot segment, "
        "re-parse equal, parent laws) and joined with every word over the alphabet up to length 3 / 4; all ordered pairs of the accepted rsync URIs with |w| <= 6 / 7 "
        "and https URIs with |w| <= 4 / 5 (incl. scheme-case variants) are checked for == vs reference equality, hash, relative_to, is_parent_of "
        "(irreflexive, invariant under equal replacement), and every parent-of chain a>b>c inside the domain for transitivity; sampled triples; "
        "random byte strings, every byte value at every position of six seed URIs, and random URI families (ancestors, trailing-slash and case variants, siblings) over the full permitted character set; "
        "size families: for every length L in {15,16,17,31,32,33,63,64,65,127,128,129,255,256,257,511,512,513,1023,1024,1025,4095,4096,4097}, for rsync authority / module / path and https authority / path, "
        "once with the component L octets long and once with the text up to the end of the component L octets long, a base URI plus variants with ONE letter of the long component in the other case "
        "at its first, second, middle and last letters and next to every such L counted from the start of the text, from the start of the component and from its end, plus all-upper / all-lower / random-case "
        "components, scheme case, trailing slash, child, text-level parent and siblings one octet longer / shorter; each family runs the single-URI laws on every member, all ordered pairs "
        "(== vs reference equality, hash, relative_to, is_parent_of), parent chains, and join with arguments of up to 600 octets (Miri: one family of three members per shard at text lengths 16 / 64 / 65). "
        "distinct_nontrivial = accepted URIs of the enumeration + related pairs (equal, relative_to is Some, or parent-of), each counted by exactly one shard, "
        "+ shape classes of the random parts; rejected strings count as evaluations only."
        " Every other way a text becomes a URI value is given the same texts (all family / dictionary / size-family texts, a quarter of the enumerated ones): from_str, from_string, from_bytes, TryFrom<String>, Deserialize over the harness token format with borrowed / transient / owned strings and over serde_json::Value; whatever any of them accepts must satisfy the value and re-parse laws and equal what from_slice made; the serde form of an accepted URI (human-readable and compact) must read back over every transport. Path segments and module names are drawn one time in four from a dictionary of structured shapes (percent-encoded dots / slashes / NUL, dot runs, hidden files, single punctuation characters, bracket-like forms), authorities one time in five from a dictionary of ports, user info, bracketed IP literals and forbidden characters in plausible positions. equal-implies-equal-hash is judged under SipHash and under a word-at-a-time hasher."
        " Doors and characters outside ASCII (c12_wide.rs): six valid URIs (three rsync, three https: ordinary, upper-case scheme with port, minimal) receive ONE character outside ASCII at EVERY position of scheme, "
        "delimiter, authority, module, path and the end, replacing the character there or inserted before it: 62 hand-picked characters (C1 controls, no-break space, soft hyphen, Latin-1 letters, Cyrillic / Greek look-alikes, "
        "characters whose lower / upper case or compatibility form is ASCII such as U+212A U+017F U+0131 U+0130 U+FF0F U+FF0E U+2024 U+2025 U+2215, invisible and directional characters, plane ends, astral characters incl. ones whose "
        "UTF-16 units end in permitted octets), all of U+0080..U+00FF at every position of the two ordinary URIs, and for every permitted ASCII octet the characters of seven other planes (U+01xx, U+04xx, U+21xx, U+4Exx, U+FFxx, U+1F4xx, U+10F0xx) "
        "with that low octet in place of their ASCII twin and at three more positions (about 31 000 texts, all of them in the quick tier, plus random family members with 1-3 random foreign characters: 4 000 quick / 400 000 thorough). "
        "Each text goes through about 40 doors for each of the two types: from_slice, from_bytes (copied and of a String), from_string, TryFrom<String>, TryInto, from_str, str::parse, Deserialize over the token format (human-readable and compact, "
        "borrowed / transient / owned strings, and octet tokens), serde's own str / String / borrowed-str / Cow deserializers, serde_json from_str / from_slice / from_reader with the string raw, with everything outside ASCII as \\uXXXX (surrogate pairs), "
        "with only the first character escaped and with every character escaped, from a Value by reference and by value, inside an array and inside an object. Whatever a door accepts must carry exactly the octets of the text, only permitted characters "
        "(table of the harness), the structure of the model, re-parse from its own octets through from_slice to an equal value with equal hash, and equal what from_slice made of the same text; the unchanged URIs go through the same doors as controls. "
        "Which doors accepted / rejected is counted per kind (octet, str, serde); disagreement between doors is an observation. One class per (scheme, part, operation, character class, UTF-8 length, outcome). "
        "Wide families: rsync authority, rsync module name, https authority (and rsync authority and module name together) with L in {255,256,257,4095,4096,4097,16384,32767,32768,32769,65534,65535,65536,65537,65545,70000,131071,131072,131073} "
        "(thorough: 2^k-2 .. 2^k+2, 2^k+9, 2^k+10 for k = 8..17, 70000, 100000, 196608, 2^20, 2^20+1), once with the component L octets long and once with the end of the component at offset L, with a path of 7, 300, 5000 or 70000 octets; "
        "members: the base, variants with ONE letter of the long component in the other case (first and last letter, then both sides of offsets 65536, 32768, 131072, 4096, 256, 16384 counted from the start of the text, "
        "from the start of the component and from its end; up to 10 quick / 48 thorough), the component all-upper / all-lower, scheme case, one letter of each other part in the other case, trailing slash, child, text-level parent, "
        "the module / authority alone, siblings one octet longer / shorter (which move the later offsets across the threshold); every member under the single-URI laws, all ordered pairs, parent chains, join with the empty path, "
        "a short path, 600 octets and (every fourth family; thorough: all) 66000 octets; the base and the first variant (thorough: four members) through every door. One class per (scheme, component, kind of L, L, path size, flips below / at-or-above 65536)."
    ),
    assumptions=[
        "permitted characters are taken from the type documentation (no space, control, \" # < > ? [ \\ ] ^ ` { | }, no non-ASCII); acceptance of a string is never demanded, only the laws on what is accepted",
        "'lies beneath base' for https (no is_parent_of there) is read as: same authority and the result's path starts with the base's path; 'parent is a parent of its child' for https as: same authority and the parent's path is a proper prefix",
        "join with the empty path may return the base itself (documented behaviour) or something beneath it",
        "reference equality is computed on the text: bytes up to the first slash after scheme:// ASCII-case-folded, the rest exact",
        "the statement speaks of 'an accepted URI', so every public way of making a value (octet, str and serde doors) is held to the same laws; that two doors disagree on accepting a text is not demanded to be otherwise (recorded only) - but a value accepted by any door must re-parse from its own octets through from_slice, so a str or serde door accepting what the octet door refuses is reported",
        "acceptance of authorities / module names of 255 octets .. 1 MiB is not demanded (rejections are counted); the laws apply to what is accepted; violation details of URIs above 8192 octets carry length, head, tail, slash offsets and a digest instead of the text (the case is regenerated from seed and shard)",
    ],
    level_text=(
        "Runtime oracles written from the statement over a bounded-exhaustive input space (every string over a 7-letter alphabet behind both schemes up to length 7, "
        "all ordered pairs of the accepted URIs, all join arguments up to length 4) plus random strings and structured families beyond it; Miri (about 10^4 times slower here) runs every 18th (quick) / 3rd (thorough) word with |w| <= 4 "
        "through parsing, parent and join plus all pairs and parent chains of a fixed list of 18 rsync and 12 https URIs, to watch from_utf8_unchecked and the index arithmetic; ASan a medium subset (|w| <= 5). The property is a finite conjunction of algebraic laws over strings, "
        "so exhaustive small-scope enumeration plus sampling beyond is the natural level; no claim is made for alphabets or lengths outside what was explored."
    ),
    level_note="Small-scope: only 7 letters (one case pair, one other letter, slash, dot, colon, space) are enumerated; longer and richer URIs are sampled, lengths up to about 4100 octets with case differences placed around powers of two in every component, authority / module name up to 131073 octets (thorough 1 MiB) with case differences on both sides of offsets 256 .. 131072. Characters outside ASCII: one foreign character per text (random part: up to three) at every position of six base URIs, about 1000 distinct characters; sequences of foreign characters, texts that are not valid UTF-8 through the str doors (impossible in safe Rust) and doors outside rpki::uri (XML, DER, TAL decoders - they belong to C09/C11/C01) are not covered here. Miri runs three such texts (even shards) and one 255/256-octet wide family of three members (odd shards).",
    technique="runtime oracle over bounded-exhaustive enumeration + random families, Miri/ASan on the same workload",
    design_ref="DESIGN.md §4 C12",
    exhaustive_scope=(
        "native stage only: all strings rsync://w and https://w, w over {a,A,b,/,.,:,space}, |w| <= 6 (quick) / 7 (thorough), both parsers; all ordered pairs of the accepted rsync URIs "
        "with |w| <= 6 / 7 and https URIs with |w| <= 4 / 5; join arguments: all words up to length 3 / 4 for rsync bases and https bases with |w| <= 4 / 5. Everything else is sampled."
    ),
)
