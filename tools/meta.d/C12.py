prop(
    "C12",
    quick=[("native", 8), ("miri", 8)],
    thorough=[("native", 16), ("asan", 4), ("miri", 8)],
    level="exploration",
    min_evals={"quick": 35_000_000, "thorough": 900_000_000},
    rule=(
        "every string rsync://w and https://w for w over the alphabet {a, A, b, /, ., :, space} up to |w| = 6 (quick) / 7 (thorough) is offered to both parsers "
        "(enumerated disjointly across shards by index), plus two scheme-case variants per scheme and 16 damaged schemes for short w; every accepted URI is checked "
        "against the single-URI laws (text unchanged, accessors recompose and split the text at its slashes, permitted characters, no empty/dot segment, "
        "re-parse equal, parent laws) and joined with every word over the alphabet up to length 3 / 4; all ordered pairs of the accepted rsync URIs with |w| <= 6 / 7 "
        "and https URIs with |w| <= 4 / 5 (incl. scheme-case variants) are checked for == vs reference equality, hash, relative_to, is_parent_of "
        "(irreflexive, invariant under equal replacement), and every parent-of chain a>b>c inside the domain for transitivity; sampled triples; "
        "random byte strings, every byte value at every position of six seed URIs, and random URI families (ancestors, trailing-slash and case variants, siblings) over the full permitted character set; "
        "size families: for every length L in {15,16,17,31,32,33,63,64,65,127,128,129,255,256,257,511,512,513,1023,1024,1025,4095,4096,4097}, for rsync authority / module / path and https authority / path, "
        "once with the component L octets long and once with the text up to the end of the component L octets long, a base URI plus variants with ONE letter of the long component in the other case "
        "at its first, second, middle and last letters and next to every such L counted from the start of the text, from the start of the component and from its end, plus all-upper / all-lower / random-case "
        "components, scheme case, trailing slash, child, text-level parent and siblings one octet longer / shorter; each family runs the single-URI laws on every member, all ordered pairs "
        "(== vs reference equality, hash, relative_to, is_parent_of), parent chains, and join with arguments of up to 600 octets (Miri: one family of three members per shard at text lengths 16 / 64 / 65). "
        "distinct_nontrivial = accepted URIs of the enumeration + related pairs (equal, relative_to is Some, or parent-of), each counted by exactly one shard, "
        "+ shape classes of the random parts; rejected strings count as evaluations only."
        " Every other way a text becomes a URI value is given the same texts (all family / dictionary / size-family texts, a quarter of the enumerated ones): from_str, from_string, from_bytes, TryFrom<String>, Deserialize over the harness token format with borrowed / transient / owned strings and over serde_json::Value; whatever any of them accepts must satisfy the value and re-parse laws and equal what from_slice made; the serde form of an accepted URI (human-readable and compact) must read back over every transport. Path segments and module names are drawn one time in four from a dictionary of structured shapes (percent-encoded dots / slashes / NUL, dot runs, hidden files, single punctuation characters, bracket-like forms), authorities one time in five from a dictionary of ports, user info, bracketed IP literals and forbidden characters in plausible positions. equal-implies-equal-hash is judged under SipHash and under a word-at-a-time hasher."
    ),
    assumptions=[
        "permitted characters are taken from the type documentation (no space, control, \" # < > ? [ \\ ] ^ ` { | }, no non-ASCII); acceptance of a string is never demanded, only the laws on what is accepted",
        "'lies beneath base' for https (no is_parent_of there) is read as: same authority and the result's path starts with the base's path; 'parent is a parent of its child' for https as: same authority and the parent's path is a proper prefix",
        "join with the empty path may return the base itself (documented behaviour) or something beneath it",
        "reference equality is computed on the text: bytes up to the first slash after scheme:// ASCII-case-folded, the rest exact",
    ],
    level_text=(
        "Runtime oracles written from the statement over a bounded-exhaustive input space (every string over a 7-letter alphabet behind both schemes up to length 7, "
        "all ordered pairs of the accepted URIs, all join arguments up to length 4) plus random strings and structured families beyond it; Miri (about 10^4 times slower here) runs every 18th (quick) / 3rd (thorough) word with |w| <= 4 "
        "through parsing, parent and join plus all pairs and parent chains of a fixed list of 18 rsync and 12 https URIs, to watch from_utf8_unchecked and the index arithmetic; ASan a medium subset (|w| <= 5). The property is a finite conjunction of algebraic laws over strings, "
        "so exhaustive small-scope enumeration plus sampling beyond is the natural level; no claim is made for alphabets or lengths outside what was explored."
    ),
    level_note="Small-scope: only 7 letters (one case pair, one other letter, slash, dot, colon, space) are enumerated; longer and richer URIs are sampled, lengths up to about 4100 octets with case differences placed around powers of two.",
    technique="runtime oracle over bounded-exhaustive enumeration + random families, Miri/ASan on the same workload",
    design_ref="DESIGN.md §4 C12",
    exhaustive_scope=(
        "native stage only: all strings rsync://w and https://w, w over {a,A,b,/,.,:,space}, |w| <= 6 (quick) / 7 (thorough), both parsers; all ordered pairs of the accepted rsync URIs "
        "with |w| <= 6 / 7 and https URIs with |w| <= 4 / 5; join arguments: all words up to length 3 / 4 for rsync bases and https bases with |w| <= 4 / 5. Everything else is sampled."
    ),
)
