prop(
    "C05",
    quick=[("native", 16)],
    thorough=[("native", 16), ("asan", 8), ("valgrind", 5)],
    level="exploration",
    min_evals={"quick": 7_500_000, "thorough": 230_000_000},
    rule=(
        "objects are built with the library's own builders under a pool signer from generated, profile-conforming inputs, 16 kinds of directly generated inputs plus 10 slots of inputs taken from decoded foreign objects (below) in rotation "
        "(TA / CA / EE / detached-EE / router certificates, CRL, manifest, ROA (twice), ASPA, CA CSR, identity TA / EE certificates, SignedMessage, "
        "ProvisioningCms, PublicationCms): serials from a boundary class list (0, 1, 127, 128, 255, 256, 2^63, 2^64-1, 2^158, 2^159-1, leading octet "
        ">=0x80 / <0x80 at every length, inner zero octets, random), whole-second times with years dense around 1949/1950 and 2049/2050 plus 1, 999, "
        "1000, 1970, 2000, 9999, leap days and day/second limits, validity windows with the evaluation instant at not_before / not_after / the middle, "
        "default and harness-encoded PrintableString (UTF8String for routers) CN [+ serialNumber] names in one or two RDNs incl. >127-octet values, "
        "rsync / https URIs over the full permitted character set, mixed-case scheme, ports and >127 / >255 octet lengths, canonical resource sets "
        "(missing / inherit / blocks; single, few, many; prefix-expressible and not; touching 0 and the top of the space; whole space) fed through "
        "three public construction paths, CRL entry lists of 0 / 1 / 2 / tens / hundreds incl. a repeated entry, manifest lists of 0..200 RFC 9286 "
        "names with 32-octet hashes, ROA prefix lists for one or both families with absent / equal / larger max length, duplicates, nesting and any "
        "order through three API paths, ASPA provider sets of 1..200 in sorted / reversed / shuffled insertion order through both API paths, CSRs "
        "with and without rpkiNotify and with a caRepository with / without trailing slash, signed messages of 0..70000 octets. "
        "One evaluation = one oracle decision: decoder accepts (strict), validator accepts at an instant inside the window, re-encoding reproduces the "
        "bytes, and one per accessor-table row compared between the built value and its decoded twin (35 rows for a certificate, 45-50 for a signed "
        "object incl. its EE certificate). State across calls: when the first pass agreed, twice per object one of the twins (random) is brought into a state the public API offers — clone, "
        "re-decoding of its own to_captured(), serde round trip, and for CRLs every &mut method and its container: cache_serials (once, twice, before / after clone, after re-decoding), "
        "CrlStore::push with and without enable_serial_caching followed by get — and every row is evaluated, in random order, on the value in that state and then again on the value it was derived from; "
        "each answer must equal the one the pristine pair agreed on (one evaluation per row and phase). CRL revocation lookups without and with the serial cache are additionally compared with the builder's entry list (observation input_echo_mismatch). Case signatures: per object one joint coarse field-shape vector (object kind, serial shape class by DER "
        "INTEGER form, ASN.1 time type of both validity ends, name default / custom, missing / inherit / blocks per family or list-size classes, "
        "API path), one class per (kind, state, twin it was applied to), plus one fine class per field (kind, field, class: e.g. serial 2^159-1, window utc/gen with evaluation at not_after, v6 shape "
        "'few+0+max', ROA max-length mix, CRL entry serial classes); distinct_nontrivial counts those classes, every object is non-trivial (it is "
        "built, decoded, validated and compared). "
        "Inputs taken from decoded foreign objects (re-issue flows, 10 of 26 slots): an encoder of the harness (own DER writer, signatures made with aws-lc directly; nothing of rpki-rs or bcder) writes a "
        "TA / CA / EE certificate, a CRL, a manifest / ROA / ASPA with its EE certificate, or a PKCS#10 request in a spelling drawn from the legal ones "
        "(0-3 deviations or all 14 at once: sha256WithRSAEncryption AlgorithmIdentifier without NULL parameters, rsaEncryption in the SubjectPublicKeyInfo without NULL, GeneralizedTime for years before 2050, "
        "extensions in reverse order, explicit critical FALSE, a CPS policy qualifier, an unknown non-critical extension, SIA entries reversed with an additional https entry, SHA-256 with NULL, "
        "sha256WithRSAEncryption / absent parameters in SignerInfo, explicit eContent version, CRL extensions swapped, explicit empty revocation list; names as PrintableString CN (key-derived, short, "
        ">127 octets), CN + serialNumber in one or two RDNs, UTF8String CN, O + CN; empty Basic Constraints or a router EKU on some EE certificates; both certificate policies; signed objects DER + strict "
        "decoding, DER + relaxed decoding, BER indefinite-length outer wrapper + relaxed decoding); the library's decoder takes it in and what its accessors hand out is fed to every builder entry point "
        "that accepts such a value: TbsCertList::new / set_signature / set_issuer / set_revoked_certs / set_authority_key_identifier with the old CRL's signature(), issuer(), revoked_certs().iter() "
        "(collected or as the iterator itself), key identifier; TbsCert by clone (unchanged, or set_serial_number + set_validity) and TbsCert::new + every setter from the accessors of the decoded "
        "certificate (names, key, key usage, basic_ca, key identifiers, EKU, six URIs, three resource sets, overclaim) — also for the EE certificate embedded in a decoded signed object; "
        "SignedObjectBuilder fed from the decoded EE certificate (URIs, issuer / subject names, signing time) with ManifestContent by clone or ManifestContent::new(.., content.iter()), RoaBuilder fed from "
        "v4_addrs().iter() / v6_addrs().iter() or from iter() (friendly form), AspaBuilder from provider_as_set().iter() or to_set(); a decoded CA certificate as issuer (its subject(), "
        "subject_key_identifier(), ca_repository().join, rpki_manifest() into a CRL and into a manifest validated under the ResourceCert obtained from it); a decoded CSR into TbsCert::new + SIA setters, "
        "the SIA URIs of a decoded CA certificate into Csr::construct_rpki_ca; a PublicKey and a Validity decoded from foreign encodings into IdCert::new_ee. The object built from them gets the same "
        "evaluations (strict decoder, validator under the same validator and strictness under which the foreign original was accepted and at an instant inside the new window — left out, and counted, when "
        "the original was not valid —, byte-identical re-encoding, accessor table rows incl. the states). A foreign object the library refuses is counted (reissue:foreign_rejected) and nothing is derived "
        "from it. Case signatures of these flows: (kind, entry-point path, spelling deviations (all of them if at most two, else their number)), one class per (kind, deviation), (kind, how written and "
        "decoded), plus the field classes of the foreign certificate and of the new serial / window. "
        "Structural encoders into part-writing and refusing sinks (c05_sink, run for every pair of values whose first table pass agreed, i.e. for all 26 slots incl. the re-issue flows): "
        "every encoder the object and its decoded twin hand out — the object (Cert / Crl / Manifest / Roa / Aspa / Csr / IdCert / SignedMessage .encode_ref), the to-be-signed part (TbsCert, "
        "TbsCertList, TbsIdCert), Crl::signed_data() and a SignedData / SignedObject decoded from the same octets (the encoders that write the signature value), the content (ManifestContent, "
        "RouteOriginAttestation, AsProviderAttestation, RevokedCertificates, the OctetString of a signed message), the EE certificate of a signed object with its own TbsCert — gets the full menu: "
        "sinks of the harness that take 1 / 7 / 64 / 200 / 256 octets per call, a seed-chosen varying pattern of 2-4 limits (1..300 or everything), one that answers every 2nd..5th call with "
        "ErrorKind::Interrupted, three with room for R octets that refuse for good afterwards (error or Ok(0), with or without taking the part that fits; R once inside the last 300 octets where the "
        "signature value is, else 0 / n-1 / uniform), three that refuse one call (seed-chosen, and the very last one) with an error or Ok(0) and then carry on, std's &mut [u8] and Cursor<&mut [u8]> "
        "(too small by 1..300 or exact) and std's BufWriter (capacity 1 / 8 / 32 / 300) over a sink taking 1 / 5 / 100; bcder mode DER (2 of 3) or BER (1 of 3; same octets). The leaf encoders "
        "reachable from accessors (Name, PublicKey.encode_ref / encode_subject_name, Validity, Serial, KeyIdentifier, KeyUsage, Rsync / Https encode_general_name, IpResources, AsResources, "
        "RpkiSignatureAlgorithm.x509_encode, Time.encode_varied, CrlEntry, FileAndHash, Oid; a seed-chosen third of the certificate's leaves per certificate) get 1 octet per call, 2 / 3 / 7 / 16 per call, the varying pattern, "
        "one refusal for good and one refused call (and the interrupting sink on a third). Encodings above 8192 octets get the 1- and 7-octet sinks on a quarter of the cases. One evaluation = one sink run "
        "judged by one law: Ok(()) implies that exactly the expected octets arrived. Expected octets: to_captured() of the built object (decoded, validated and re-encoded by the oracles above) for "
        "everything that encodes the whole object; the TLV cut out of those octets by a TLV reader of the harness for TbsCert / TbsCertList / TbsIdCert (first element), eContent (content of "
        "ContentInfo[1][0][2][1][0]) and the EE certificate ([1][0][3][0]) — the Vec output of these encoders is first compared with that cut (signature vec-differs-from-the-octets-of-the-object); "
        "what the same encoder writes into a Vec for the leaves. Case signatures of this part: (encoder path, built / decoded, sink kind, some / no call taken short, ok / err) and (encoder path, side, object kind)."
    ),
    assumptions=[
        "times are whole seconds with years 1..9999 (X.509 times have no fractions; a Time with nanoseconds is outside the profile)",
        "resource sets are fed in canonical order (sorted, disjoint, non-adjacent); ROA prefix lists are in any order with duplicates and nesting but "
        "exclude lists in which a later prefix bridges two earlier separate ones: collecting those is known defect F1 and belongs to C03",
        "Roa::process / Aspa::process and the CMS wrappers validate at Time::now() only; for them the window is built around the current time "
        "(>= 1 hour margin) and the rest of the ROA / ASPA workload is validated through SignedObject::validate_at at a generated instant",
        "ProvisioningCms / PublicationCms only offer a relaxed (BER-mode) decoder whose result cannot be written into a DER encoding (bcder refuses); "
        "their re-encoding leg is decided on the strictly decoded SignedMessage; what the relaxed twin's to_bytes() does is recorded as an observation",
        "no BGPsec CSR is generated: the library has no builder for it",
        "CSR builders return bytes only: the table compares the decoded CSR with the CSR decoded from its re-encoding and with the builder inputs",
        "the annotation of an RpkiSignatureAlgorithm value (were NULL parameters present where it was decoded from — it takes part in == and Debug) is not treated as an answer about the object when the "
        "value came from a decoded foreign object: the library documents that the identifiers it writes always carry NULL whatever the value says, so a built CRL holding 'no parameters' and its "
        "decoded twin holding 'parameters' are compared through what the value means and writes (signing_algorithm, both x509 encoders, the CMS encoder); the difference of the annotation is counted "
        "(reissue:sigalg_annotation_differs). For directly generated inputs the Debug / == rows stay in force",
        "values that carry the mode they were captured in (Name, TbsCert by clone) and come from an object decoded in relaxed mode make TbsCert::into_cert hit bcder's assertion against mixing modes, "
        "although their octets are DER; whether such a value still is a profile-conforming builder input is left open: recorded as observation and note (reissue:relaxed_mode_tagged_input), not judged. "
        "Every other input from a relaxed-decoded object (URIs, serials, times, key identifiers, manifest content, prefixes, providers) is judged",
        "foreign objects use canonical RFC 3779 encodings and whole-second times; a foreign object the library's decoder refuses is not a subject of C05",
        "RSA signing keys come from a cached pool of 4 keys (one P-256 public key for router certificates); key material is not a subject of the property",
        "streaming: the statement's 'encodes to DER that the library's own decoder accepts' is read as holding for every io::Write the encoder is given, not only for the in-memory writers behind "
        "to_captured(): an encoder that returns Ok(()) must have delivered exactly the object's octets. What it returns after the sink refused (error, Ok(0)) is open as long as it is not Ok with other "
        "octets; an error although the sink only took calls short or answered Interrupted (nothing refused) is counted (stream:error_although_nothing_was_refused, stream:error_after_interrupts_only), "
        "not judged; sinks never lie about the count they return and flush() always succeeds (no second chance to report)",
        "a value holding a part captured from a relaxed-mode decoding is refused by bcder in DER mode by assertion (see above); such a value is streamed in BER mode only (counted: stream:der_mode_refused...)",
    ],
    level_text=(
        "Runtime monitoring of the real builders, decoders and validators over generated builder inputs and over builder inputs taken from decoded foreign objects written by an independent encoder in every legal spelling (quick 52 000 objects, thorough 1 500 000, "
        "16 object kinds plus 14 re-issue flows), with three oracles per object: acceptance by the library's own strict decoder and validator inside the validity window, "
        "byte-identical re-encoding, and a hand-written table of every public accessor / iterator / nested encoder of the type evaluated on the built "
        "value and on its decoded twin under catch_unwind and compared row by row, then again with one twin cloned / re-decoded / serde-round-tripped / (CRL) serial-cached or stored in a caching CrlStore, before and after; "
        "finally every structural and leaf encoder of both values is streamed into part-writing, interrupting and refusing sinks (quick 7.7 million sink runs) under the law 'Ok(()) implies exactly the object's octets arrived'. ASan repeats 32 000 objects, valgrind memcheck 130 objects (every slot five times) including "
        "the aws-lc signing and verification paths. This is the level the property calls for: it quantifies over builder inputs, and both the "
        "'accepted by its own decoder' and the 'same answers' parts are decidable per execution."
    ),
    level_note=(
        "Sampled, not exhaustive; accessor tables are hand-written from the public API of this revision (an accessor added later is not covered until "
        "its row is added); internal captured layouts are judged only through public accessors and encoders. Sinks: limits, refusal offsets and refused calls are sampled per encoder run (the tail of the "
        "encoding and the last call always, the rest seed-chosen), not enumerated; the list of streamed encoders is hand-written like the tables (c05_sink.rs); the EE certificate and CRL inside a SignedMessage "
        "have no public accessor and are only streamed as part of SignedMessage.encode_ref."
    ),
    technique="runtime oracle (decode + validate + re-encode + accessor tables built vs decoded + every encoder streamed into part-writing / refusing sinks) over generated builder inputs and over inputs decoded from foreign objects of an independent encoder (re-issue flows); ASan, valgrind",
    design_ref="DESIGN.md §4 C05",
)
