prop(
    "C05",
    quick=[("native", 16)],
    thorough=[("native", 16), ("asan", 8), ("valgrind", 5)],
    level="exploration",
    min_evals={"quick": 3_500_000, "thorough": 100_000_000},
    rule=(
        "objects are built with the library's own builders under a pool signer from generated, profile-conforming inputs, 16 kinds of directly generated inputs plus 10 slots of inputs taken from decoded foreign objects (below) in rotation "
        "(TA / CA / EE / detached-EE / router certificates, CRL, manifest, ROA (twice), ASPA, CA CSR, identity TA / EE certificates, SignedMessage, "
        "ProvisioningCms, PublicationCms): serials from a boundary class list (0, 1, 127, 128, 255, 256, 2^63, 2^64-1, 2^158, 2^159-1, leading octet "
        ">=0x80 / <0x80 at every length, inner zero octets, random), whole-second times with years dense around 1949/1950 and 2049/2050 plus 1, 999, "
        "1000, 1970, 2000, 9999, leap days and day/second limits, validity windows with the evaluation instant at not_before / not_after / the middle, "
        "default and harness-encoded PrintableString (UTF8String for routers) CN [+ serialNumber] names in one or two RDNs incl. >127-octet values, "
        "rsync / https URIs over the full permitted character set, mixed-case scheme, ports and >127 / >255 octet lengths, canonical resource sets "
        "(missing / inherit / blocks; single, few, many; prefix-expressible and not; touching 0 and the top of the space; whole space) fed through "
        "three public construction paths, CRL entry lists of 0 / 1 / 2 / tens / hundreds incl. a repeated entry, manifest lists of 0..200 RFC 9286 "
        "names with 32-octet hashes, ROA prefix lists for one or both families with absent / equal / larger max length, duplicates, nesting and any "
        "order through three API paths, ASPA provider sets of 1..200 in sorted / reversed / shuffled insertion order through both API paths, CSRs "
        "with and without rpkiNotify and with a caRepository with / without trailing slash, signed messages of 0..70000 octets. "
        "One evaluation = one oracle decision: decoder accepts (strict), validator accepts at an instant inside the window, re-encoding reproduces the "
        "bytes, and one per accessor-table row compared between the built value and its decoded twin (35 rows for a certificate, 45-50 for a signed "
        "object incl. its EE certificate). State across calls: when the first pass agreed, twice per object one of the twins (random) is brought into a state the public API offers — clone, "
        "re-decoding of its own to_captured(), serde round trip, and for CRLs every &mut method and its container: cache_serials (once, twice, before / after clone, after re-decoding), "
        "CrlStore::push with and without enable_serial_caching followed by get — and every row is evaluated, in random order, on the value in that state and then again on the value it was derived from; "
        "each answer must equal the one the pristine pair agreed on (one evaluation per row and phase). CRL revocation lookups without and with the serial cache are additionally compared with the builder's entry list (observation input_echo_mismatch). Case signatures: per object one joint coarse field-shape vector (object kind, serial shape class by DER "
        "INTEGER form, ASN.1 time type of both validity ends, name default / custom, missing / inherit / blocks per family or list-size classes, "
        "API path), one class per (kind, state, twin it was applied to), plus one fine class per field (kind, field, class: e.g. serial 2^159-1, window utc/gen with evaluation at not_after, v6 shape "
        "'few+0+max', ROA max-length mix, CRL entry serial classes); distinct_nontrivial counts those classes, every object is non-trivial (it is "
        "built, decoded, validated and compared). "
        "Inputs taken from decoded foreign objects (re-issue flows, 10 of 26 slots): an encoder of the harness (own DER writer, signatures made with aws-lc directly; nothing of rpki-rs or bcder) writes a "
        "TA / CA / EE certificate, a CRL, a manifest / ROA / ASPA with its EE certificate, or a PKCS#10 request in a spelling drawn from the legal ones "
        "(0-3 deviations or all 14 at once: sha256WithRSAEncryption AlgorithmIdentifier without NULL parameters, rsaEncryption in the SubjectPublicKeyInfo without NULL, GeneralizedTime for years before 2050, "
        "extensions in reverse order, explicit critical FALSE, a CPS policy qualifier, an unknown non-critical extension, SIA entries reversed with an additional https entry, SHA-256 with NULL, "
        "sha256WithRSAEncryption / absent parameters in SignerInfo, explicit eContent version, CRL extensions swapped, explicit empty revocation list; names as PrintableString CN (key-derived, short, "
        ">127 octets), CN + serialNumber in one or two RDNs, UTF8String CN, O + CN; empty Basic Constraints or a router EKU on some EE certificates; both certificate policies; signed objects DER + strict "
        "decoding, DER + relaxed decoding, BER indefinite-length outer wrapper + relaxed decoding); the library's decoder takes it in and what its accessors hand out is fed to every builder entry point "
        "that accepts such a value: TbsCertList::new / set_signature / set_issuer / set_revoked_certs / set_authority_key_identifier with the old CRL's signature(), issuer(), revoked_certs().iter() "
        "(collected or as the iterator itself), key identifier; TbsCert by clone (unchanged, or set_serial_number + set_validity) and TbsCert::new + every setter from the accessors of the decoded "
        "certificate (names, key, key usage, basic_ca, key identifiers, EKU, six URIs, three resource sets, overclaim) — also for the EE certificate embedded in a decoded signed object; "
        "SignedObjectBuilder fed from the decoded EE certificate (URIs, issuer / subject names, signing time) with ManifestContent by clone or ManifestContent::new(.., content.iter()), RoaBuilder fed from "
        "v4_addrs().iter() / v6_addrs().iter() or from iter() (friendly form), AspaBuilder from provider_as_set().iter() or to_set(); a decoded CA certificate as issuer (its subject(), "
        "subject_key_identifier(), ca_repository().join, rpki_manifest() into a CRL and into a manifest validated under the ResourceCert obtained from it); a decoded CSR into TbsCert::new + SIA setters, "
        "the SIA URIs of a decoded CA certificate into Csr::construct_rpki_ca; a PublicKey and a Validity decoded from foreign encodings into IdCert::new_ee. The object built from them gets the same "
        "evaluations (strict decoder, validator under the same validator and strictness under which the foreign original was accepted and at an instant inside the new window — left out, and counted, when "
        "the original was not valid —, byte-identical re-encoding, accessor table rows incl. the states). A foreign object the library refuses is counted (reissue:foreign_rejected) and nothing is derived "
        "from it. Case signatures of these flows: (kind, entry-point path, spelling deviations (all of them if at most two, else their number)), one class per (kind, deviation), (kind, how written and "
        "decoded), plus the field classes of the foreign certificate and of the new serial / window."
    ),
    assumptions=[
        "times are whole seconds with years 1..9999 (X.509 times have no fractions; a Time with nanoseconds is outside the profile)",
        "resource sets are fed in canonical order (sorted, disjoint, non-adjacent); ROA prefix lists are in any order with duplicates and nesting but "
        "exclude lists in which a later prefix bridges two earlier separate ones: collecting those is known defect F1 and belongs to C03",
        "Roa::process / Aspa::process and the CMS wrappers validate at Time::now() only; for them the window is built around the current time "
        "(>= 1 hour margin) and the rest of the ROA / ASPA workload is validated through SignedObject::validate_at at a generated instant",
        "ProvisioningCms / PublicationCms only offer a relaxed (BER-mode) decoder whose result cannot be written into a DER encoding (bcder refuses); "
        "their re-encoding leg is decided on the strictly decoded SignedMessage; what the relaxed twin's to_bytes() does is recorded as an observation",
        "no BGPsec CSR is generated: the library has no builder for it",
        "CSR builders return bytes only: the table compares the decoded CSR with the CSR decoded from its re-encoding and with the builder inputs",
        "the annotation of an RpkiSignatureAlgorithm value (were NULL parameters present where it was decoded from — it takes part in == and Debug) is not treated as an answer about the object when the "
        "value came from a decoded foreign object: the library documents that the identifiers it writes always carry NULL whatever the value says, so a built CRL holding 'no parameters' and its "
        "decoded twin holding 'parameters' are compared through what the value means and writes (signing_algorithm, both x509 encoders, the CMS encoder); the difference of the annotation is counted "
        "(reissue:sigalg_annotation_differs). For directly generated inputs the Debug / == rows stay in force",
        "values that carry the mode they were captured in (Name, TbsCert by clone) and come from an object decoded in relaxed mode make TbsCert::into_cert hit bcder's assertion against mixing modes, "
        "although their octets are DER; whether such a value still is a profile-conforming builder input is left open: recorded as observation and note (reissue:relaxed_mode_tagged_input), not judged. "
        "Every other input from a relaxed-decoded object (URIs, serials, times, key identifiers, manifest content, prefixes, providers) is judged",
        "foreign objects use canonical RFC 3779 encodings and whole-second times; a foreign object the library's decoder refuses is not a subject of C05",
        "RSA signing keys come from a cached pool of 4 keys (one P-256 public key for router certificates); key material is not a subject of the property",
    ],
    level_text=(
        "Runtime monitoring of the real builders, decoders and validators over generated builder inputs and over builder inputs taken from decoded foreign objects written by an independent encoder in every legal spelling (quick 52 000 objects, thorough 1 500 000, "
        "16 object kinds plus 14 re-issue flows), with three oracles per object: acceptance by the library's own strict decoder and validator inside the validity window, "
        "byte-identical re-encoding, and a hand-written table of every public accessor / iterator / nested encoder of the type evaluated on the built "
        "value and on its decoded twin under catch_unwind and compared row by row, then again with one twin cloned / re-decoded / serde-round-tripped / (CRL) serial-cached or stored in a caching CrlStore, before and after. ASan repeats 32 000 objects, valgrind memcheck 130 objects (every slot five times) including "
        "the aws-lc signing and verification paths. This is the level the property calls for: it quantifies over builder inputs, and both the "
        "'accepted by its own decoder' and the 'same answers' parts are decidable per execution."
    ),
    level_note=(
        "Sampled, not exhaustive; accessor tables are hand-written from the public API of this revision (an accessor added later is not covered until "
        "its row is added); internal captured layouts are judged only through public accessors and encoders."
    ),
    technique="runtime oracle (decode + validate + re-encode + accessor tables built vs decoded) over generated builder inputs and over inputs decoded from foreign objects of an independent encoder (re-issue flows); ASan, valgrind",
    design_ref="DESIGN.md §4 C05",
)
