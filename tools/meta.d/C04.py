prop(
    "C04",
    quick=[("native", 16)],
    thorough=[("native", 16), ("asan", 8), ("miri", 4), ("fuzz", 16)],
    level="exploration",
    min_evals={"quick": 1_000_000, "thorough": 12_000_000},
    # configuration of the `fuzz` stage (see fixes/check-fuzz-stage.patch for the driver side)
    fuzz={
        "seconds": 240,
        "max_len": 16384,
        "targets": [
            {"name": "c04_repo", "group": "repo"},
            {"name": "c04_ca", "group": "ca"},
            {"name": "c04_resources", "group": "resources"},
            {"name": "c04_text", "group": "text"},
        ],
    },
    rule=(
        "One evaluation = one byte string decoded through one entry point (32 of them: Cert, Crl, Manifest/Roa/Aspa/Rta/SignedObject strict+relaxed, "
        "Tal::read, PublicKey, RpkiCaCsr, BgpsecCsr, IdCert, SignedMessage strict+relaxed, ProvisioningCms, PublicationCms, and in DER and BER mode "
        "AsResources/AsBlocks, IpResources/IpBlocks, ManifestContent, TbsCertList/RevokedCertificates/CrlEntry, x509 Time/Validity, Serial, Name) plus, "
        "for an accepted value, the accessor sweep (all getters and iterators, contains(serial), iter/iter_uris, iter_origins, provider sets, "
        "to_blocks/iter/asn_count/bounded iter_asns, range-to-prefix decomposition, set operations, Display/Debug, re-encoding through the captured-bytes path (to_captured / encode_ref of the outer object) *and* through every public structural encoder of the object and its parts "
        "(TbsCert / TbsIdCert / TbsCertList / RevokedCertificates / CrlEntry / ManifestContent / FileAndHash / ROA and ASPA content / RTA content::encode_ref, Crl / Manifest / Roa / Aspa / Rta / SignedObject / SignedMessage::encode_ref, "
        "IpResources and AsResources::encode / encode_ref / encode_family / encode_extension, IpBlocks and AsBlocks::encode / encode_ref / encode_family, IpBlock / Prefix / AddressRange::encode, Name, Time, Validity, Serial, PublicKey, KeyUsage), "
        "serde, validate*/process/inspect* against a fixed issuer at a fixed time) "
        "under catch_unwind inside an allocator window with the thread CPU clock read around it. "
        "Inputs: every captured DER/BER/TAL file under test-data/, 22 objects built with the library's builders under the key pool "
        "(TA/CA/inherit/router certificates, CRL, manifest, ROA, ASPA, two RTAs, CSR, identity certificates, five signed protocol messages incl. one with a "
        "hand-edited re-signed revocation list, two TALs), ~45 sub-structures found by decoding every subtree of those through the component entry points; "
        "each unchanged through all 32 entry points; truncated at every TLV boundary; 21 tree mutators on an own TLV tree that descends into OCTET/BIT STRING "
        "wrapped DER (tag, length +-/0/huge/indefinite/non-minimal, value bytes, splice from another object, duplicate, delete, swap, INTEGER boundary values, "
        "time strings, OID swaps, BIT STRING unused bits / over-long addresses, address-sized BIT STRINGs set to the ends of the address space (empty, all ones, all zeros, full length), BER re-encoding of a subtree, emptying, growing, constructed strings), 1-3 stacked; "
        "generated RFC 3779 values (block lists from the boundary-dense endpoint pool of the C03 generators — ranges ending at the last / starting at the first address or AS number, whole space, zero-length, adjacent, overlapping, unsorted, one in eight with a reversed range — "
        "written canonically or raw by the independent DER writer as SEQUENCE OF IPAddressOrRange / ASIdOrRange, IPAddrBlocks with one or both families or inherit, ASIdentifiers): 64 k (quick) / 800 k (thorough) through the resource entry points in DER and BER mode, "
        "and 6.4 k / 80 k planted into the resource extensions of the pool-signed certificates and signed objects (EE certificate) and re-signed, so that the accessor sweep of the decoded object and validation against the fixed issuer run over them (range-to-prefix decomposition, counts, displays, set algebra); "
        "the scaling workload (c04_scale.rs): 49 shapes, one per list-like structure a decoder walks — IPAddrBlocks / bare IPAddressOrRange lists (IPv4 prefixes, IPv6 ranges, both families), ASIdentifiers / bare ASIdOrRange lists (ids, ranges), manifest FileAndHash list (content alone and in a re-signed manifest), "
        "revokedCertificates (TBSCertList, bare list, signed CRL, the CRL inside a signed protocol message), Name (n RDNs, one RDN of n attributes; alone, as certificate / CSR / identity-certificate subject), TAL (n URI lines, n comment lines), ROA addresses (IPv4, IPv6 with maxLength, both), "
        "a ROA whose eContent is a BER constructed OCTET STRING of n segments, ASPA providers (up to the 16380 the decoder admits), certificate RFC 3779 extensions (IPv4 prefixes, IPv6 ranges, AS ranges), n unknown certificate / identity-certificate / protocol-CRL extensions, SIA access descriptions (certificate, CSR), AIA and CRLDP names, policy qualifiers, EKU key purposes, "
        "unknown signed attributes of a protocol message (up to the 65535-octet limit), RTA subject keys / AS and IP blocks / certificate bag / CRL bag / signer infos, RFC 6492 list_response (n AS numbers, n prefixes, n classes, n issued certificates) and RFC 8181 list reply / publish-withdraw query with n elements — "
        "each written by the independent DER writer at n entries (about 100 kB), 4n, 16n (about 1.6 MB) and, in the thorough tier, 64n (about 6.4 MB; a size is only entered while the laws held so far and its predicted cost stays under 1 s / 4 s of CPU per run), in scrambled order where the order is free, spliced into a pool-signed seed and re-signed where the list lives inside a signed object; every such input goes through the ordinary evaluation, "
        "then the decoding step alone (decode_only) and decode + sweep are timed (thread CPU clock, minima of 5 and 3 runs; 7 and 4 thorough) and their peak heap taken at both sizes, through each home entry point of the shape (80 shape x entry point pairs and 160 size steps in quick, 233 in thorough, spread over the shards; observation counters scale:* name the regions reached, the steps compared per size class and the largest factors seen); n varies by up to 12 % with the seed; "
        "iterators of decoded values under the standard iterator adapters (c04_iter.rs): an interpreter for adapter programs — a few positioning calls (next, nth(d), size_hint) on a fresh iterator of the value, then one consuming adapter "
        "(count, last, fold, collect, skip(d) + next / count / last / nth, step_by(d) + next.. / nth, take(d) + nth / last / count, enumerate().nth, chain(fresh).nth, peekable().peek/nth) — with distances given relative to what remains "
        "(to the last item, exactly to the end, one and more past it) or absolutely (0, 1, 2^24, 2^31, 2^32-1, 2^32, usize::MAX); every result is compared with a reference obtained by plain next() stepping on another fresh iterator of the same value "
        "(bounded: first 64 items in the sweep, 256 in the workload), extended for AsBlock::iter / into_iter / AsBlocks::iter_asns by the arithmetic the block's own min()/max() prescribe (member i of ASmin-ASmax is min+i; only used when the stepped prefix agrees with it), "
        "so that programs are judged on blocks of billions of members without walking them; a program is only run when its cost on an iterator without any shortcut (nth(n) = n steps) fits the step budget. "
        "Iterator types that also implement DoubleEndedIterator / ExactSizeIterator (found at compile time by method-resolution order, so the harness compiles whether or not a given type has them) get rev, next_back, nth_back, meeting in the middle, rfold and len as well. "
        "Inside the accessor sweep of every accepted value a fixed plan of 57 programs runs over AsBlock::iter / into_iter (blocks at both ends of a list and those touching AS0 / AS4294967295), AsBlocks::iter, iter_asns, IpBlocks::iter, AddressRange::to_v4_prefixes / to_v6_prefixes, "
        "RevokedCertificates::iter, ManifestContent::iter / iter_uris, RoaIpAddresses::iter, RouteOriginAttestation::iter / iter_origins, ProviderAsSet::iter, SmallAsnSet::iter and its difference / symmetric_difference / intersection / union iterators, Tal::uris, OctetString::iter / octets "
        "(at most 48 iterators and 4096 steps per program per evaluation, so the cost does not grow with the value); a workload of its own generates 16 k (quick) / 320 k (thorough) values whose members sit at the ends of the number spaces "
        "(AS block lists whose blocks end at AS4294967295, AS4294967294, 2^31, 65535, 0.. and reach down by 1 .. 2^22 .. all members; IPv4 / IPv6 block lists from the C03 endpoint pool; manifest file lists and revoked-certificate lists of 0 .. 257 entries with serial numbers at the ends of 20 octets; "
        "ROA contents with /0, /32, /128 prefixes at both ends of the address space and ASPA provider sets holding AS0 / AS4294967295, spliced into pool-signed objects and re-signed), decodes them through AsBlocks / AsResources (DER, BER), IpBlocks, ManifestContent, RevokedCertificates::take_from, Roa / Aspa::decode "
        "and runs the fixed plan plus 24 (32) random programs on every iterator of the value (one evaluation per value; a quarter also go through the ordinary evaluation); "
        "walks over all 2^32 members of AS0-AS4294967295 (count, last, nth(2^32-1), nth(2^32), next + nth(2^32-1), step_by(2^24), step_by(2^32-1), skip(len-3), skip(len-2).count, skip.nth, chain.nth, take(usize::MAX).last, two nth in a row, iter_asns().count / last): one per native shard in quick, so that each of sixteen programs is walked once per run, four per shard in thorough also over AS1-AS4294967295, AS0-AS4294967294, AS2147483648-AS4294967295; "
        "case signatures of this workload are (kind of value, shape of the value: canonical or as drawn, number of blocks / entries, size class of the largest block, touches AS4294967295 / AS0 / whole space, decoded or refused) and (block, iterator, program) of a walk; observation counters iterlaws:* say how many iterators, programs, compared results, jumps past the end, size hints, double-ended / exact-size iterators were seen and how many programs were not run for cost; "
        "5 raw byte mutators; random strings; text mutators for TALs; for pool-signed seeds one mutant in 8 (16 thorough) is mutated inside a signed region and "
        "re-signed (message digest, signed attributes, EE certificate, CRL) so that it passes the signature checks; towers of 10^2..10^4 (3*10^4 thorough) nested "
        "constructed values, bare and planted inside real objects, each evaluated in a child process on a 2 MiB thread stack. "
        "A scaling comparison counts as two evaluations (decode, decode + sweep) and one case signature (shape, entry point, size step). "
        "A case signature (distinct_nontrivial) is (entry point, first mutator [+ if stacked], outcome class = 'ok' or the decoder's error text without numbers, "
        "error position in eighths of the input = how deep the decoder got); inputs rejected within the first four bytes are trivial and only counted as evaluations. "
        "The fuzz stage adds libFuzzer executions of the same evaluate function (counted as evaluations, no signatures)."
    ),
    assumptions=[
        "'for every byte string' is sampled: structure-aware mutants of ~100 seeds, random strings and coverage-guided fuzzing, not an enumeration",
        "budgets as stated in the design: peak heap <= 64 KiB + 64*len per evaluation (decode + whole accessor sweep, harness formatting goes to a counting sink), "
        "thread CPU time <= 0.2 s + 1 us*len (native stage only; three runs must all exceed, each taken next to a steady reference computation because the CPU clock of this VM also advances while the vCPU is descheduled); on the pinned tree the observed maxima are 13 % (heap) and 4-26 % (CPU, 16 shards in parallel) of these budgets",
        "scaling laws between consecutive sizes of the same shape (the constants are the monitor's reading of 'a fixed multiple of the input size'): CPU t(4n) <= 8 t(n) + 1 ms and peak heap(4n) <= 8 heap(n) + 256 KiB, for the decoding step and for decode + accessor sweep (DESIGN §4 C04 puts accessors under the budgets); "
        "a linear or n log n decoder measures 3.6-4.6 on the pinned tree (up to 5.9 with 16 shards on a machine at load 100), a quadratic one 12-30. A CPU excess only counts after three further runs of the large input that all exceed, each next to a steady reference computation, and is dropped as soon as one run satisfies the law (the clock only over-counts); "
        "pairs whose size factor falls outside 2.5..4.5 or that a decoder refuses are counted and not judged; the next size is not entered when a law is already broken or the predicted CPU time of one run exceeds 1 s (quick) / 4 s (thorough) — the watchdog would otherwise kill the shard; "
        "a quadratic term that is small against the linear cost of the accessor sweep (a memmove per entry, say) needs the larger sizes to reach a factor of 8 and can stay below it",
        "iterator adapters: a result that differs from plain next() stepping on the same value is reported (C04:iter-disagrees:<iterator>:<adapter>) next to panics, because an adapter that yields members the iteration does not have, or does not end where it ends, is how a position shortcut makes a loop over skip / step_by run on; "
        "size_hint is held to its contract only (lower <= remaining <= upper; collect and extend reserve memory for the lower bound), results after the first None are ignored (an iterator need not be fused) but must not panic; "
        "the arithmetic continuation takes min()/max() of the decoded block as given (two accessors of the library against a third) and is dropped, with a counter, when stepping contradicts it; "
        "programs whose cost on an iterator without shortcuts exceeds the step budget (2^12 per program in the sweep, 2^16 / 2^20 in the workload, 2^34 in a walk) are counted and not run, so a shortcut that only misbehaves after more than that many members of one block is seen by the sixteen walks only; "
        "step_by(s).nth(n) is not run when s*(n+1) exceeds usize (std's StepBy::nth then subtracts in a loop of up to s rounds: std's time, not the library's); the walks over 2^32 members run outside the CPU budget and outside the runaway watchdog (an iterator without shortcuts needs about 7 s for one)",
        "in the accessor sweep of block lists longer than 512 blocks the two look-ups that scan from the front (contains_block / intersects_block) are made for every 16th block and the last eight, not for each of up to 4096: asking for each would be a quadratic of the harness's own making; "
        "the five IP resource decoders of the ipres entry points are run decode-sweep-drop one after the other so that the heap budget is not charged with five live copies",
        "a runaway evaluation (more than 20 s of worker CPU time, read by a watchdog thread from the worker's CPU clock) aborts the shard, an allocation blow-up hits RLIMIT_AS; both are reported by the driver from the breadcrumb after the re-run died the same way; the wall-clock watchdog alone only yields inconclusive",
        "where the harness has to choose an encoding mode for an encode_ref() value of something decoded in relaxed/BER mode it chooses BER (bcder asserts against emitting "
        "BER-captured parts in DER mode); the library's own to_captured()/to_bytes()/Serialize choose their mode themselves and are held to the property",
        "hook H1 (chain invariant) is drained and counted as an observation only: non-canonical chains from hostile resource extensions are C03's subject, not a C04 verdict",
        "Miri stage: pure-parse entry points on small sub-structures only, no aws-lc, no Debug/serde formatting (interpreter speed: seconds per object); "
        "deep nesting only in the native stage (child processes)",
        "panic sites inside dependencies (bcder) are reported under C04 with the crate directory in the signature; sites inside std are named by the innermost library frame or, "
        "when that was inlined, by the harness sweep function and the panic message",
    ],
    level_text=(
        "Runtime monitoring of the real decoders on hostile inputs: ~1.9 million (quick) / ~23 million (thorough, native stage) decode-and-sweep evaluations of structure-aware mutants under "
        "panic capture, a counting allocator and the thread CPU clock, repeated under AddressSanitizer (200 k mutants), Miri (pure-parse sub-structures, ~300 evaluations) and 4 minutes of "
        "coverage-guided libFuzzer (16 forks, ASan, 40-50 million executions) over four targets that call the same evaluation function; iterators of decoded values are additionally driven through the standard adapters (nth, skip, step_by, take, count, last, fold, collect, chain, enumerate, peekable; rev / nth_back / len where implemented) with distances at and past the end and at the ends of the number spaces, every result compared with plain next() stepping (about 80 million compared results in quick); process death (stack overflow, abort, allocation failure, CPU limit) is observed "
        "through child processes and the driver's breadcrumb protocol; 'a fixed multiple of the input size' is additionally observed as growth: 49 generated shapes of 0.1 / 0.4 / 1.6 (/ 6.4) MB compared pairwise under a CPU and a heap scaling law. This is the strongest level this technique family offers for a 'for all byte strings' property; it samples."
    ),
    level_note=(
        "Trusts the harness' own TLV parser/serialiser, the counting allocator and CLOCK_THREAD_CPUTIME_ID; cannot show absence of panics on inputs not generated; "
        "the iterator adapter comparison trusts plain next() stepping as the reference (a defect common to next() and an adapter is not seen by it; next() itself is under the ordinary sweep) and its own interpreter of adapter programs; methods an iterator type may override but no adapter used here routes through are not reached; "
        "ASan/Miri see only what the workload executes; aws-lc internals are exercised (hostile keys and signatures) but only watched by ASan-less native code and libFuzzer's ASan build of the Rust side."
    ),
    technique="runtime monitoring: structure-aware DER/BER mutation + accessor sweep under catch_unwind / counting allocator / CPU clock; iterators of decoded values under adapter programs compared with next() stepping; generated large inputs (every list-like structure at n, 4n, 16n entries) under CPU and heap scaling laws between sizes; ASan; Miri; libFuzzer",
    design_ref="DESIGN.md §4 C04",
)
