prop(
    "C06",
    quick=[("native", 16), ("miri", 16)],
    thorough=[("native", 16), ("asan", 16), ("miri", 16)],
    level="exploration",
    min_evals={"quick": 690_000, "thorough": 18_000_000},
    rule=(
        "random histories (seeded per shard) of 5-15 ops over the real Client and the real Server::run joined by in-memory pipes "
        "(buffer sizes 1..4096 bytes per direction, so responses are suspended mid-PDU) with a byte-level middlebox, on a paused-clock "
        "current-thread runtime. Ops: Update (random change set over a small universe of v4/v6 origins, router keys and ASPAs incl. "
        "provider changes, clear-all, fill), Notify, Step, Reconnect (keeping state and data / stale state / foreign session / no state, "
        "with junk data where a reset must follow; new client version 0-2 and old-cache cap 0-2 per connection), NewSession, SerialJump "
        "(towards and across the u32 wrap), UpdateDuringResponse (updater task committing a new snapshot k scheduler rounds after the "
        "server asked the source for its response). Per history: diff window never / last k / unbounded, diff style minimal / ASPA "
        "withdraw-then-announce / concatenated per-update diffs, ASPA withdrawals with or without providers. "
        "One evaluation = one completed Client::step() checked (replayed target log vs. snapshot named by the End of Data seen on the wire, "
        "Client::state(), timing for version >= 1; the same log is also applied to three reference targets that keep the library values handed over - "
        "a Vec using == only, a BTreeSet<Payload> (Ord) and a HashSet<Payload> (Hash, fixed keys), ASPA records replaced by customer - whose content, "
        "read back through the accessors, and element count must equal the snapshot too), or one (type, triple) of the collection-key laws: for generated "
        "triples of closest neighbours (origins differing in max length / explicit-or-implicit max length / ASN / prefix length / one address bit / family, "
        "router keys differing in one bit of one field, ASPAs of the same customer) and each of Payload, PayloadRef, RouteOrigin, RouterKey, Aspa: "
        "a == b iff cmp is Equal iff the two denote the same item on the wire, a == b implies equal hashes, partial_cmp agrees with cmp, cmp antisymmetric and transitive. "
        "A case signature is one of four classes of a completed, non-trivial step: "
        "A (version, response serial/reset/fallback-reset, window class, how the connection started, downgrade?, update-during-response?, "
        "after serial wrap?, diff offered?), B (version, response, diff style, announce/withdraw pattern per payload type, data changed?), "
        "C (version, response, the last two op kinds before the step), D (version, response, pipe size class per direction, items in the response); K (payload kind, neighbour relations of the triple, number of implicit-max-length forms) for the key laws. A step that transferred an empty diff is trivial and registers nothing. "
        "Steps ending in Err assert nothing and are counted as aborted_steps. "
        "LARGE DATA SETS (native and ASan stages; c06_big.rs): besides the random histories, a matrix of histories walked by index (quick 150, thorough 720, "
        "ASan 45; every index is run by exactly one shard) - size class x protocol version 0/1/2 (negotiated directly or by downgrade through the emulated older cache) "
        "x shape. A full data set is aimed at about 12 KiB / 40 KiB / 160 KiB / 600 KiB / 1.8 MiB (thorough also 4.6 MiB) of payload PDUs counted under the "
        "negotiated version (what that version does not carry is at the source as well and must be left out), i.e. 600 ... 230 000 items, so that reset responses pass "
        "4, 8, 16, 64, 256 KiB, 1 MiB and 65 536 items by a margin; updates churn 20-100 % of the set (withdrawals + announcements + provider changes), grow it, shrink it, "
        "clear and refill it or touch a few items, so that serial responses pass the same marks. Shapes: small PDUs only (IPv4/IPv6 origins, 91-octet router keys, ASPAs "
        "with 0-8 providers; for version 0 also IPv4 only), small PDUs with a few very large ones in between, very large PDUs only (ASPAs with 300-16380 providers, "
        "router keys with 1 000 - 1 100 000 octets of key info, lengths around powers of two and PDU sizes of 4/16/64/128/256 KiB and 1 MiB); ASPA records that go from a "
        "short (or no) provider list to a very long one within one diff (withdraw-then-announce and concatenated diff styles: a short and a long PDU of the same customer, "
        "whose order matters). Pipes of 1 octet ... 3 MiB per direction (shorter and longer than a PDU, than any plausible buffer, than the whole response), diff window "
        "never / last k / unbounded, reconnects with every kind of initial state, new sessions (fallback to a large reset), serial jumps, updates during a suspended "
        "large response. Judged by the same replay oracle (the three reference targets are left out there: the ==-only one is quadratic). Additional signature classes "
        "of a completed large step: L (version, response, octets-of-payload-PDUs class, item-count class, longest-PDU class, shape) and M (version, reset/serial, octets "
        "class, pipe size class per direction). Observation counters large_v<version>_<reset|serial>_responses_over_<4KiB|8KiB|16KiB|64KiB|256KiB|1MiB>, "
        "..._with_65536_items_or_more, large_responses_with_a_single_pdu_over_<size>, large_responses_with_a_pdu_longer_than_a_pipe, max:payload_octets_in_one_response, "
        "max:longest_payload_pdu say which regions a run reached; a violation found there names the differing items literally with their position (payload PDU number, "
        "octets of payload PDUs before it) in the response as the source presented it. "
        "FOREIGN CACHE (all stages; c06_foreign.rs): the real Client against a cache that is not the library's server - scripted conversations of 1-4 exchanges "
        "(quick 64 000 transcripts, thorough 1.6 M, ASan 48 000, Miri 32; seeded per shard) laid out by the harness' independent PDU encoder c07_io::Pdu, reserved fields "
        "then overwritten in the octets, served by a scripted socket that releases each answer only after the query it answers was written (whole / octet by octet / in "
        "chunks with not-ready polls). The cache uses the freedoms RFC 6810 / 8210 / 8210bis give a sender and the library's server never uses: flags octets with reserved bits "
        "(one bit, bit 7, all bits, any octet, mixed per PDU; lowest-order bit = announce/withdraw), non-zero reserved fields (4th body octet and header field of IPv4/IPv6 "
        "prefix PDUs, octet after the flags of router key / ASPA PDUs, header field of Cache Reset: lowest bit, all ones, any, mixed), payload PDUs in any order with types "
        "interleaved, items with a history inside one answer (announce-then-withdraw, withdraw-then-announce, announced twice, withdrawn twice, withdrawal of something absent, "
        "announcement of something held), an ASPA record replaced by a second announcement of the same customer (inside one answer or of a held record), ASPA withdrawals "
        "with no / the held / other providers, End of Data timing at both ends of the ranges of RFC 8210 section 6 (all minimum, all maximum, mixed ends, next to the ends, "
        "inside, defaults, outside), serial steps of 0, 1, many, 2^31-1, 2^31.., to 0 / 1 / 2^32-1, random; answers: difference to a serial query, full set to a reset query, "
        "Cache Reset then full set (same or new session id); cache version 0-2 with the client asking the same or a higher version (answered by an unsupported-version "
        "Error Report or directly in the lower version); client with or without initial state and data; entry point step() or update()+apply(); later exchanges started by "
        "Serial Notify or by the refresh timer in virtual time. One evaluation = one exchange that returned Ok and whose queries were the ones the script answers, judged by "
        "a model written from the documents: previous data (empty for an answer to a reset query) with the PDUs applied in wire order by their lowest-order flags bit, ASPA keyed "
        "by customer = what the target's log replayed on the previous data must give; Client::state() = End of Data; version >= 1 and regular timing values: timing handed to "
        "the target = End of Data's. Open cases accept every reading and are counted (foreign_open_*): payload types the cache's version lacks (applied / ignored), withdrawals "
        "inside an answer to a reset query (applied / ignored), timing outside the ranges or expire not above refresh and retry (recorded only). Exchanges that end in Err "
        "assert nothing and end the transcript (foreign_exchanges_refused, foreign_refused:<class>). Signature classes of a completed foreign exchange: F (version, answer kind, "
        "flags style, reserved-field style, how the version was agreed, entry point, delivery), G (version, answer kind, set of item-history shapes in the answer, open cases "
        "present), H (version, answer kind, timing class, what started the exchange). An exchange with an empty difference registers H only. A data violation found there is "
        "named after the first PDU the target was handed differently from how it was sent (type, sent as, handed on as / not handed on, dress)."
    ),
    assumptions=[
        "a failed step ends the connection (as Client::run does); the next step uses a new connection",
        "a client that reconnects with a saved state holds the data belonging to that state for the version it will negotiate (the documented precondition of Client::new)",
        "timing for version >= 1: the source's timing of the state named in End of Data or of any state that was current while the exchange ran (the server reads the timing when it writes End of Data)",
        "the harness source never reuses a (session, serial) pair for different data and offers diffs only within its current session",
        "virtual refresh intervals stay below tokio's timer wheel range (timers beyond 2^36 ms corrupt tokio 1.52's wheel under the paused clock)",
        "deterministic given seed and shard: no tokio::select!, single-threaded runtime",
        "item identity is the one of the wire: an origin without explicit max length and one with max length = prefix length are the same item (the PDU carries the resolved value only); "
        "ASPA provider lists compare in transmitted order; a target keeps one ASPA record per customer",
        "large data sets: generated values are within what the library's own constructors accept (at most 16380 providers per ASPA; router key info up to 1.1 MB, far "
        "below the 4 GiB a PDU length can express); the octets-per-PDU figures used to size the sets and to locate a lost item (20 / 32 / 32 + key info / 12 + 4 per "
        "provider) are those of RFC 8210 and 8210bis and are never part of a verdict; if fewer than half of the steps over large data complete, a note says so",
        "foreign cache: the data the transcript prescribes follows the statement literally (announcements and withdrawals applied in order, set semantics: a second announcement of a held "
        "item and a withdrawal of an absent one change nothing, an ASPA announcement replaces the record of that customer, an ASPA withdrawal removes it whatever providers it carries); "
        "the harness target accepts every update, so the 'SHOULD report an error' cases of RFC 8210 5.6 (duplicate announcement, unknown withdrawal) complete; reserved flag bits and "
        "reserved fields do not change the meaning of a PDU (RFC 8210 sections 5, 5.6, 5.7, 5.10: 'MUST be ignored on receipt'); a client that refuses such PDUs with an error is not "
        "reported (conditional on completion), only counted",
        "foreign cache: the scripted socket never has an answer readable before its query was written; an exchange in which the client's queries are not the ones the script answers "
        "(type, session, serial taken from the previous End of Data) is not evaluated and a note says so; refresh values stay at or below 30 000 000 s (timer wheel, see above)",
    ],
    level_text=(
        "Runtime oracle over executions of the real client/server pair: the harness target records every (action, payload) and the timing, "
        "the checker replays the log on the client's previous data in a model written in plain integers (and in three reference collections keyed by the library's own Eq / Ord / Hash, read back into that model) and compares with the immutable "
        "snapshot the harness source recorded for the (session, serial) in the End of Data PDU tapped at the byte boundary, restricted to the "
        "payload types of the version in that PDU. Exploration of random update/query histories with all protocol versions, downgrade through "
        "an emulated older cache, diff availability classes and updates racing a suspended response, plus a matrix of histories over large data sets "
        "(responses of 4 KiB to several MiB and of a few hundred to some hundred thousand items for every version, single PDUs of up to 1.1 MB, pipes of 1 octet to 3 MiB) for every path whose behaviour "
        "depends on the size of a response, plus scripted conversations with a cache that is not the library's server (reserved flag bits and fields, any order, item histories "
        "inside one answer, timing at the ends of its ranges) judged against a model of the PDU semantics written from the RFCs; Miri and ASan repeat a reduced workload "
        "for the packed PDU structs and the unchecked slice in the error path."
    ),
    level_note=(
        "Sampled histories only; the oracle trusts the harness' own source/diff implementation (self-checked: every diff offered leads from the "
        "old to the current snapshot) and the byte tap. Aborted steps (e.g. a Serial Notify between query and response) assert nothing. "
        "The foreign-cache transcripts are sampled too and stay small (up to 60 payload PDUs per answer, the small universe of the random histories); their oracle trusts the "
        "independent encoder c07_io::Pdu plus the octet positions of the reserved fields written down from the PDU diagrams. Sender freedoms not exercised: host bits set in a "
        "prefix, Serial Notify inside a response, a session id that changes without Cache Reset, error reports other than unsupported version. With refresh = 0 and a delivery "
        "that is not ready at once the client abandons a half-read Serial Notify and the next exchange ends in Err (counted under foreign_refused, asserts nothing)."
    ),
    technique="runtime oracle (replayed target log, in an integer model and in Eq/Ord/Hash-keyed reference targets, vs. source snapshot) over random client/server histories in virtual time and over a size-class x version x shape matrix of histories with large data sets, large diffs and single very large PDUs + the real client against a scripted foreign cache (transcripts from the independent PDU encoder, model of the PDU semantics from the RFCs) + Eq/Ord/Hash coherence laws on neighbour triples + Miri/ASan",
    design_ref="DESIGN.md §4 C06",
)
