prop(
    "C06",
    quick=[("native", 16), ("miri", 16)],
    thorough=[("native", 16), ("asan", 16), ("miri", 16)],
    level="exploration",
    min_evals={"quick": 600_000, "thorough": 12_000_000},
    rule=(
        "random histories (seeded per shard) of 5-15 ops over the real Client and the real Server::run joined by in-memory pipes "
        "(buffer sizes 1..4096 bytes per direction, so responses are suspended mid-PDU) with a byte-level middlebox, on a paused-clock "
        "current-thread runtime. Ops: Update (random change set over a small universe of v4/v6 origins, router keys and ASPAs incl. "
        "provider changes, clear-all, fill), Notify, Step, Reconnect (keeping state and data / stale state / foreign session / no state, "
        "with junk data where a reset must follow; new client version 0-2 and old-cache cap 0-2 per connection), NewSession, SerialJump "
        "(towards and across the u32 wrap), UpdateDuringResponse (updater task committing a new snapshot k scheduler rounds after the "
        "server asked the source for its response). Per history: diff window never / last k / unbounded, diff style minimal / ASPA "
        "withdraw-then-announce / concatenated per-update diffs, ASPA withdrawals with or without providers. "
        "One evaluation = one completed Client::step() checked (replayed target log vs. snapshot named by the End of Data seen on the wire, "
        "Client::state(), timing for version >= 1; the same log is also applied to three reference targets that keep the library values handed over - "
        "a Vec using == only, a BTreeSet<Payload> (Ord) and a HashSet<Payload> (Hash, fixed keys), ASPA records replaced by customer - whose content, "
        "read back through the accessors, and element count must equal the snapshot too), or one (type, triple) of the collection-key laws: for generated "
        "triples of closest neighbours (origins differing in max length / explicit-or-implicit max length / ASN / prefix length / one address bit / family, "
        "router keys differing in one bit of one field, ASPAs of the same customer) and each of Payload, PayloadRef, RouteOrigin, RouterKey, Aspa: "
        "a == b iff cmp is Equal iff the two denote the same item on the wire, a == b implies equal hashes, partial_cmp agrees with cmp, cmp antisymmetric and transitive. "
        "A case signature is one of four classes of a completed, non-trivial step: "
        "A (version, response serial/reset/fallback-reset, window class, how the connection started, downgrade?, update-during-response?, "
        "after serial wrap?, diff offered?), B (version, response, diff style, announce/withdraw pattern per payload type, data changed?), "
        "C (version, response, the last two op kinds before the step), D (version, response, pipe size class per direction, items in the response); K (payload kind, neighbour relations of the triple, number of implicit-max-length forms) for the key laws. A step that transferred an empty diff is trivial and registers nothing. "
        "Steps ending in Err assert nothing and are counted as aborted_steps."
    ),
    assumptions=[
        "a failed step ends the connection (as Client::run does); the next step uses a new connection",
        "a client that reconnects with a saved state holds the data belonging to that state for the version it will negotiate (the documented precondition of Client::new)",
        "timing for version >= 1: the source's timing of the state named in End of Data or of any state that was current while the exchange ran (the server reads the timing when it writes End of Data)",
        "the harness source never reuses a (session, serial) pair for different data and offers diffs only within its current session",
        "virtual refresh intervals stay below tokio's timer wheel range (timers beyond 2^36 ms corrupt tokio 1.52's wheel under the paused clock)",
        "deterministic given seed and shard: no tokio::select!, single-threaded runtime",
        "item identity is the one of the wire: an origin without explicit max length and one with max length = prefix length are the same item (the PDU carries the resolved value only); "
        "ASPA provider lists compare in transmitted order; a target keeps one ASPA record per customer",
    ],
    level_text=(
        "Runtime oracle over executions of the real client/server pair: the harness target records every (action, payload) and the timing, "
        "the checker replays the log on the client's previous data in a model written in plain integers (and in three reference collections keyed by the library's own Eq / Ord / Hash, read back into that model) and compares with the immutable "
        "snapshot the harness source recorded for the (session, serial) in the End of Data PDU tapped at the byte boundary, restricted to the "
        "payload types of the version in that PDU. Exploration of random update/query histories with all protocol versions, downgrade through "
        "an emulated older cache, diff availability classes and updates racing a suspended response; Miri and ASan repeat a reduced workload "
        "for the packed PDU structs and the unchecked slice in the error path."
    ),
    level_note=(
        "Sampled histories only; the oracle trusts the harness' own source/diff implementation (self-checked: every diff offered leads from the "
        "old to the current snapshot) and the byte tap. Aborted steps (e.g. a Serial Notify between query and response) assert nothing."
    ),
    technique="runtime oracle (replayed target log, in an integer model and in Eq/Ord/Hash-keyed reference targets, vs. source snapshot) over random client/server histories in virtual time + Eq/Ord/Hash coherence laws on neighbour triples + Miri/ASan",
    design_ref="DESIGN.md §4 C06",
)
