prop(
    "C07",
    quick=[("native", 8), ("miri", 12)],
    thorough=[("native", 16), ("asan", 8), ("miri", 12), ("fuzz", 16)],
    level="fault_enumeration",
    min_evals={"quick": 5_500_000, "thorough": 180_000_000},
    # configuration of the `fuzz` stage (driver side: run_fuzz_stage in ../../check, target: harness/fuzz/fuzz_targets/c07_pdu.rs)
    fuzz={
        "seconds": 120,
        "max_len": 4096,
        "targets": [
            {"name": "c07_pdu", "group": "pdu"},
        ],
    },
    rule=(
        "Values: every PDU type (Serial Notify, Serial Query, Reset Query, Cache Response, IPv4/IPv6 Prefix, End of Data v0 and v1/2, "
        "Cache Reset, Router Key, Error Report, ASPA) x protocol version 0..2 with boundary-dense fields (session/serial/timers at 0, 1, 2^k, 2^31, 2^32-1, "
        "single-byte patterns; prefix lengths 0..32/128 with max-length at both ends; key info 0..2048 octets, occasionally 64 KiB; 0..256 providers, "
        "occasionally up to 16380; Error Reports whose body straddles the 1024-octet skip buffer). Payload items are built through payload::Payload + "
        "pdu::Payload::new (3/4) or the raw PDU constructors with arbitrary flags/lengths (1/4). Each value is written with the library, compared with "
        "an independent RFC 6810/8210 encoder, and read back through every entry point (typed read, try_read, Payload::read, Header::read + read_payload / "
        "EndOfData::read_payload / Error::skip_payload / SerialQueryPayload::read, dispatch on the type octet) once followed by more data and once at the end of the stream. "
        "Faults: every truncation length of every written PDU up to 4096 octets (a boundary-dense subset above that) delivered all at once, and byte by byte "
        "with Pending between bytes and in a random chunk/Pending script (all lengths up to 160 / 600 octets); every truncation length of 2- and 3-PDU streams in the three delivery patterns; "
        "header type octet 0..255, version octet 0..255 and length in {0..40, true+-1..4, 1023..1033, 2^16-1..2^16+4, 2^24-1..2^24+4} for a share of the values, "
        "plus 2^31-1, 2^31, 2^32-4, 2^32-1 once per check in the native stage. "
        "One evaluation = one stream position read to its end by one entry point and judged, or one written PDU checked. "
        "A case signature is (PDU type, version class 0/1/2/>2, damage: intact | truncated@k for k<=40, len-1, or a size bucket | type->t | version->v class | length->value class, "
        "delivery pattern, entry point); distinct_nontrivial counts these classes. "
        "The fuzz stage (thorough) adds coverage-guided libFuzzer executions of target c07_pdu: input octet 0 selects one of the 37 read entry points, octet 1 the delivery pattern "
        "(all at once / byte-wise with Pending / one of 64 chunk scripts), the rest (up to 4 KiB) is the stream, which ends where the input ends; the selected entry point reads "
        "PDU after PDU (at most 48) and every read is judged by the same damage oracle as the enumerated faults (no panic, completion within the poll budget, at most two reads "
        "after end-of-stream, bounded consumption, never Ok for a stream ending inside the PDU / a type the reader does not take / an impossible length, an accepted PDU ends where "
        "its length field says and writes back to the octets read). Headers announcing more than 1 MiB are not handed to the library there. Seeded with ~470 generated PDUs, "
        "sequences, truncations and length-damaged headers; executions are counted as evaluations, not as signatures. "
        "Connection level (native and ASan stages; thorough also a third of the Miri shards): the readers one level up are driven over a mock socket. "
        "(a) Client::step on a protocol-valid response transcript laid out by the independent encoder - Cache Response, 0..6 payload PDUs of the types the version carries, End of Data - "
        "for protocol versions 0..2 and five paths (reset query; serial query; serial query answered by Cache Reset then reset query; the last two again after a completed exchange "
        "and a Serial Notify on the same connection, i.e. with the version already negotiated; the client asks with the response's version or a higher one), in which exactly one "
        "header field of exactly one PDU is overwritten - at every PDU position: version (0..4, 0x7F, 0x80, 0xFE, 0xFF, two random), type (0..13, 0x7F, 0x80, 0xFF, one random), "
        "length (31 boundary values around 8/12/20/24/32 and the true length, up to 2^16+4), session/flags field (3 values) - or which ends after every octet count of the response, "
        "delivered all at once and in one of byte-wise+Pending / random chunk script (second pattern: version and truncation faults). The step future is polled by hand with a counting "
        "waker inside an entered, never driven paused-clock runtime. (b) the real Server::run with one mock connection fed a stream of 1..3 router PDUs (reset query, serial query with "
        "known / current / unknown state, Error Report, PDUs a router must not send, unsupported version, version switch) that ends at every octet count 0..=len (before the first header, "
        "inside a header, inside the serial query payload, inside an Error Report, after a complete and answered query), in one of the three delivery patterns, a quarter with a "
        "notification fired in the first scheduler turns; the driver yields turn by turn. One evaluation = one judged client step or one server connection run. "
        "Signatures: (client path, version, damage class, PDU position first/middle/last/only payload | cache response | end of data, PDU type, delivery) and "
        "(server: PDU the stream ends in, version, where it ends, delivery, notification?). "
        "(c) whole conversations (module c07_sess; same stages as (a)): one client, 2..4 exchanges on one connection, laid out by the independent encoder for versions 0..2 - per exchange "
        "a Serial Notify at the idle position (from the second exchange on), then either Cache Response, 0..3 payload PDUs, End of Data, or Cache Reset followed by such a response to the "
        "reset query (a third of the exchanges in which the client has state); a client with or without initial state asking with the transcript's version or a higher one; in a third of "
        "the transcripts with a higher asking version an 'unsupported protocol version' Error Report precedes the first response. The client is called once per exchange through "
        "Client::step or through Client::update + Client::apply (alternating per transcript), by hand as in (a), up to the call that reads the fault. One fault per run, at EVERY PDU of the "
        "transcript (idle/notify, version Error Report, Cache Reset, Cache Response, every payload PDU, End of Data, in every exchange): version octet (0, 1, 2, 3, 0x7F, 0xFF, one random), "
        "type octet (0..13, 0x7F, 0xFF, one random), length field (19 values: 0, 7..36 at the fixed sizes, true-4/-1/+1/+4/+8, true+2^16), the PDU resized coherently (cut or zero-padded to "
        "8..36 / true-4/+4/+8 octets with the length field saying so), the PDU replaced by each of 12 PDUs laid out with the session's version (one of every type of the library: Serial Notify, "
        "Serial Query, Reset Query, Cache Response, IPv4, IPv6, End of Data, Cache Reset, Router Key, two Error Reports, ASPA), each of these 12 inserted in front of it; and the stream ending "
        "after every octet count within 9 octets of a PDU boundary and every third one elsewhere. Delivery per transcript: all at once, byte-wise with Pending, or a random chunk/Pending script. "
        "One evaluation = one conversation run up to and including the judged call. Signatures: (entry point, version, damage class, reading position idle | first reply to serial query | first "
        "reply to reset query | payload sequence, role of the PDU, exchange 1 / 2 / 3+, delivery). "
        "(d) version negotiation histories (module c07_nego; native and ASan stages, a few under Miri in the thorough tier): the client (Client::new, with_initial_version 0/1/2/3/255; with or without "
        "initial state; optionally after one completed exchange on the connection, i.e. 'later' histories) is called through step, update + apply or reset + apply against a scripted peer that "
        "answers query by query with reply units laid out by the independent encoder: 'unsupported protocol version' Error Reports (code 4, header version 0/1/2/3/255, with or without the "
        "embedded query, text of 0..1100 octets so that the report straddles the 1024-octet skip buffer), complete responses with every PDU in one version, Cache Reset in some version. 14 history "
        "templates: one downgrade then a response in the requested version (control); a response in another version; a second report (same / lower / higher version) then a response; 2..200 "
        "reports (same, descending, alternating 1/0, ascending, random versions) then end of stream or silence; a report and then a GENERATOR that answers every further query with the next "
        "report of a cyclic pattern for ever; the generator from the first query on; downgrade, Cache Reset, response with one of the three in a deviating version; Cache Reset first, then reports; "
        "downgrade, Cache Reset, generator; a plain response (also in a version above the one asked for); random sequences of 1..6 units. A third of the finite histories is on the wire at once, the "
        "others are released one unit per query the client has written (queries are recognised by the harness' own header parser in what the client writes); delivery all at once / byte-wise with "
        "Pending / random chunk script. The generator turns the read after its 64th answer into an error, so a client that never stops asking is a bounded event. One evaluation = one judged call. "
        "Signatures: (entry point, version proposed, fresh | after a completed exchange, template, first four units with their version relative to the first unit's, what follows, eager | lockstep). "
        "(e) streams that stay open and silent (module c07_silent): a reader that hands out a prefix in one of the three delivery patterns and then answers every read with Pending without ever "
        "waking the task, counting those polls. PDU level (native, ASan, Miri): every one of the 37 read entry points on every prefix length >= 8 (up to 44 octets, and the full length) of: a complete PDU of "
        "every type from the generator (for most readers 'another type, shorter than mine'); the same PDU with its length field set to 8..32 / true-4 / true+4 / a random value and the body cut or "
        "zero-padded to that length; a complete PDU of at most 12 octets followed by another PDU; bare headers with type 0..13, 0x7F, 0xFF, one random and 18 length values (0..40, 1000, 4000, 2^16+8); "
        "End of Data headers of versions 3, 0x7F, 0xFF; plus prefixes of 3 and 7 octets. The future is polled by hand with a counting waker; Pending without a wake-up is 'waits for ever' (there is "
        "no timer at this level). Client level (native, ASan): Client::step / update + apply on a current-thread runtime with PAUSED CLOCK that is really driven (virtual time jumps to the next timer "
        "whenever the client waits; the harness' own timeout of 4*10^6 virtual seconds is the only other timer), protocol versions 0..2, 0..2 completed exchanges in front, refresh intervals 1 s .. 1 day; "
        "at the idle position (half of the cases; the refresh timer eventually fires), as first reply to the serial / reset query, and after the Cache Response and 0..2 payload PDUs there arrives: a "
        "complete PDU of one of eight types, a bare header (15 type values x 18 lengths), a PDU the position expects resized coherently to 8..28 / true-4 / true-1 octets, the first k octets of an "
        "expected PDU, or nothing; after that the peer is silent, except that a query the client writes is answered with a complete response (a cache that goes on working). One evaluation = one "
        "reader on one prefix / one judged client call. Signatures: (entry point, header type class, length class, how much of the announced length arrived, what the statement demands) and "
        "(client entry point, version, reading position, exchanges before, header class, octets arrived, demand)."
    ),
    assumptions=[
        "the wire layout of the harness' encoder is the one of RFC 6810 / RFC 8210 and of the ASPA PDU as implemented (flags in the high octet of the session field, customer, providers)",
        "a header with a version outside 0..2 is only required to be handled without panic, spin or over-read: the PDU layer does not know the negotiated version, so acceptance is recorded as an observation (End of Data with version 0 must be 12 octets and with version 1/2 24 octets)",
        "an ASPA withdrawal read back may carry an empty provider list (the item is keyed by the customer)",
        "for a header that is still well-formed after a field was overwritten, acceptance and refusal are both allowed; if accepted the value must write back to exactly the octets read",
        "a read is 'bounded' when an accepted PDU ends exactly where its length field says and a refusal has taken no more than max(32, announced length) octets (32 = largest fixed layout); 'does not spin' means at most two reads after end-of-stream and completion within 16*(stream length+8)+64 polls",
        "memory allocated for an announced length is not judged (the library allocates the announced size for router keys and ASPA)",
        "connection level, what must end in Err from Client::step: a response in which exactly one PDU's version octet differs from all others (whichever version the client takes for the "
        "negotiated one, the next PDU at the latest announces a wrong one), a type octet no cache ever sends (1, 2, 5, 12..255; Serial Notify 0 is left open), a length no PDU of that type "
        "can have (fixed-size PDUs: any other value; Router Key < 32; ASPA < 12 or not 12+4k), a stream that ends before the End of Data is complete; the client must not have taken more than "
        "the damaged PDU and the one after it (version) / max(32, announced length) octets (type, length). Everything else (a type change that gives another well-formed PDU of a possible "
        "length, a still possible length of a variable-length PDU, a changed session/flags field) is recorded as accepted/refused, not judged; an undamaged transcript that is refused is "
        "reported as a note. A step that returns Pending without a wake-up (waiting on a timer) is recorded, not judged",
        "whole conversations (c07_sess), what must end in Err from the call that reads the fault - decided from the header the client finds at that reading position after the fault was "
        "applied, by a grammar of the router side of RFC 6810 / 8210: (1) a type no cache sends at that position: idle - anything but Serial Notify (an Error Report ends the session, so Err "
        "as well); first reply to a serial query - anything but Cache Response, Cache Reset (read on) and Error Report, Serial Notify (left open: version negotiation, 'ignore notifies during "
        "start-up'); first reply to a reset query - anything but Cache Response (read on) and Error Report, Serial Notify, Cache Reset (left open); between Cache Response and End of Data - "
        "anything but IPv4, IPv6, Router Key, ASPA, End of Data (read on) and Serial Notify (left open), so Error Reports, Cache Response, Cache Reset, queries and unassigned types must fail there; "
        "(2) for a type that is read on: a length no PDU of that type has (as above; Serial Notify 12, Cache Reset / Cache Response 8); (3) for a type that is read on with a possible length: a "
        "version octet other than the one every other PDU of the conversation carries - this includes the Serial Notify at the idle position and the Cache Reset (RFC 8210 section 7: a PDU of "
        "another version after negotiation ends the session); (4) a stream that ends before the last exchange is complete. Octets taken when giving up: at most max(32, announced length) from "
        "the judged header (type, length), the judged PDU plus the next one of the same exchange (version). A fault that leaves a header the grammar reads on with (a PDU replaced by or "
        "preceded by another payload PDU or End of Data, a still possible length, a resized Error Report) is recorded as accepted/refused; an earlier call that fails on undamaged octets and "
        "an undamaged transcript that is refused are recorded (note), not judged",
        "negotiation histories (c07_nego), the model of 'the negotiated version' is taken from the wire only: the version is fixed by a completed exchange or by a code-4 Error Report whose version is below the version octet of the query it answers (the client's own query, parsed from what it wrote). From then on a Cache "
        "Response, a Cache Reset answering a serial query, or a further code-4 Error Report with ANOTHER version octet announces a wrong version: the call must return Err without having taken more "
        "than that PDU and the next one (RFC 8210 section 7: once negotiated the version does not change). One call may work through at most 3 code-4 reports (there are three protocol versions; the "
        "fourth must end the call): this is the 'bounded number of octets / queries'. Left open and only recorded: a second report with the SAME version as negotiated, a report whose version is not "
        "below the one asked for, a response in a version above the one asked for, Cache Reset in answer to a reset query, whether a Cache Reset that is the very first PDU of a session already fixes the version, a well-behaved history that is refused (note), a call that waits on the "
        "I/O timeout because the peer is silent (nothing drives timers in this workload)",
        "silent streams (c07_silent): 'offending header' = a complete header whose type the reader does not take (typed read / try_read: any other type; Payload::read: anything but IPv4, IPv6, End of "
        "Data, Router Key, ASPA; the client: the per-position grammar of c07_sess - idle: anything but Serial Notify; first reply to a serial query: anything but Cache Response, Cache Reset and the "
        "open Serial Notify / Error Report; first reply to a reset query: anything but Cache Response and the open Serial Notify / Cache Reset / Error Report; payload sequence: anything but the five "
        "payload types and the open Serial Notify) or whose length no PDU of the type can have (End of Data with a version above 2 has no layout). A wrong VERSION octet in an otherwise expected, "
        "incomplete PDU is not in this set (the PDU layer does not know the version; the client checks it once the PDU is complete). After an offending header the PDU-level read must be Ready(Err) - "
        "Pending without wake-up is reported as waiting for ever, Ok as acceptance - and must not have taken more than max(announced length, size of the PDU the reader is after); try_read on an Error "
        "Report header must come back at once with the header. A complete well-formed PDU must be read (exactly its length taken) although nothing follows; an incomplete well-formed prefix may wait "
        "(recorded) or be refused (recorded). Client level: the call must not return Ok (the client carried on over the offending PDU) and must not still wait when only the harness' timer is left; an "
        "Err that only arrives after virtual time has passed (a timer of the client had to fire first) satisfies 'not for ever' and is recorded, not reported",
        "connection level, server: after the peer closed, the connection task must be gone (socket dropped) within 16*(stream length+8)+64 scheduler turns, without reading the socket more "
        "than twice after end-of-stream (the mock answers the third read with an error, which turns a busy loop on a closed socket into a bounded, observable event) and without sitting idle",
    ],
    level_text=(
        "Fault enumeration at the stream level: for every generated PDU and PDU sequence all truncation points and all values of the header's type and version octet "
        "(plus a boundary set of lengths) are executed against every public read entry point under three delivery patterns, with a reader that makes reads after "
        "end-of-stream countable and a manual poll loop that makes non-termination a bounded, observable event. Round trips are judged by identity against the "
        "value written and against an independent encoder. Miri repeats one value of every PDU type with all truncations (packed structs, raw slices, "
        "get_unchecked_mut in skip_payload); ASan repeats the native workload at reduced size. The thorough tier ends with 2 minutes of coverage-guided libFuzzer "
        "(16 forks, ASan build) over arbitrary byte streams through the same entry points and the same oracle, so payload octets and header fields are varied together, "
        "not one header field at a time. The connection-level part executes the same fault classes against the two stateful readers built on the PDU layer - Client::step (serial(), reset(), "
        "the first-reply readers, version bookkeeping across PDUs and across exchanges) and the server's connection task (header read raced against notifications) - at every PDU position "
        "of a response and every octet position of a query stream, with logical bounds (poll budget, scheduler-turn budget, reads after end-of-stream) instead of a clock. "
        "Whole conversations of 2..4 exchanges add the positions only a client with a completed exchange behind it reaches - the idle wait for a Serial Notify, Cache Reset and the fallback "
        "to a reset query, the version Error Report - with faults at every PDU of the conversation judged per reading position. "
        "Negotiation histories replace the single fault by whole sequences of version-related replies (finite, and endless from a generator) judged against a wire-level model of the negotiated version; "
        "silent streams replace end-of-stream by a connection that stays open and says nothing, judged by wake-ups and virtual time instead of reads after end-of-stream."
    ),
    level_note=(
        "Field values and multi-PDU sequences are sampled, not enumerated; PDUs above 4 KiB get a boundary-dense subset of truncation points; "
        "byte-wise delivery is complete only up to 160 octets per stream. A spin inside one poll that never touches the reader would only be seen by the outer watchdog (inconclusive). "
        "Connection level: one damaged header field per transcript, values of the fields sampled at boundaries; the server's output side never blocks in this workload (C08 covers that). "
        "Whole conversations: one fault per conversation; the client's clock never moves (the refresh timer of the idle wait does not fire), the target accepts everything, "
        "what the client writes (queries, Error Reports) is kept in the detail but not judged here (C06). "
        "Negotiation histories: templates and versions are sampled; the generator is cut off after 64 answers (a client that stops at the 65th would be reported as never stopping); only the version "
        "octet of the client's queries is used, their content is not judged. Silent streams: prefixes above 44 octets only at full length; at the client level the clock is the only source of wake-ups "
        "besides the client's own writes (no second task, no Serial Notify arriving later), the refresh timer path is exercised with nothing / partial PDUs arriving and is recorded, not judged; the "
        "server side is not driven over silent streams (C08)."
    ),
    technique="runtime oracle + fault enumeration (truncating AsyncRead, poll budget; PDU readers, Client::step / update+apply over single responses and over multi-exchange conversations with a per-position grammar, the server connection task; scripted query-by-query peer with an endless generator for version negotiation histories; never-waking silent reader and a driven paused clock for open-but-silent streams) + Miri/ASan + libFuzzer",
    design_ref="DESIGN.md §4 C07",
)
