prop(
    "C07",
    quick=[("native", 8), ("miri", 12)],
    thorough=[("native", 16), ("asan", 8), ("miri", 12), ("fuzz", 16)],
    level="fault_enumeration",
    min_evals={"quick": 4_000_000, "thorough": 120_000_000},
    # configuration of the `fuzz` stage (driver side: run_fuzz_stage in ../../check, target: harness/fuzz/fuzz_targets/c07_pdu.rs)
    fuzz={
        "seconds": 120,
        "max_len": 4096,
        "targets": [
            {"name": "c07_pdu", "group": "pdu"},
        ],
    },
    rule=(
        "Values: every PDU type (Serial Notify, Serial Query, Reset Query, Cache Response, IPv4/IPv6 Prefix, End of Data v0 and v1/2, "
        "Cache Reset, Router Key, Error Report, ASPA) x protocol version 0..2 with boundary-dense fields (session/serial/timers at 0, 1, 2^k, 2^31, 2^32-1, "
        "single-byte patterns; prefix lengths 0..32/128 with max-length at both ends; key info 0..2048 octets, occasionally 64 KiB; 0..256 providers, "
        "occasionally up to 16380; Error Reports whose body straddles the 1024-octet skip buffer). Payload items are built through payload::Payload + "
        "pdu::Payload::new (3/4) or the raw PDU constructors with arbitrary flags/lengths (1/4). Each value is written with the library, compared with "
        "an independent RFC 6810/8210 encoder, and read back through every entry point (typed read, try_read, Payload::read, Header::read + read_payload / "
        "EndOfData::read_payload / Error::skip_payload / SerialQueryPayload::read, dispatch on the type octet) once followed by more data and once at the end of the stream. "
        "Faults: every truncation length of every written PDU up to 4096 octets (a boundary-dense subset above that) delivered all at once, and byte by byte "
        "with Pending between bytes and in a random chunk/Pending script (all lengths up to 160 / 600 octets); every truncation length of 2- and 3-PDU streams in the three delivery patterns; "
        "header type octet 0..255, version octet 0..255 and length in {0..40, true+-1..4, 1023..1033, 2^16-1..2^16+4, 2^24-1..2^24+4} for a share of the values, "
        "plus 2^31-1, 2^31, 2^32-4, 2^32-1 once per check in the native stage. "
        "One evaluation = one stream position read to its end by one entry point and judged, or one written PDU checked. "
        "A case signature is (PDU type, version class 0/1/2/>2, damage: intact | truncated@k for k<=40, len-1, or a size bucket | type->t | version->v class | length->value class, "
        "delivery pattern, entry point); distinct_nontrivial counts these classes. "
        "The fuzz stage (thorough) adds coverage-guided libFuzzer executions of target c07_pdu: input octet 0 selects one of the 37 read entry points, octet 1 the delivery pattern "
        "(all at once / byte-wise with Pending / one of 64 chunk scripts), the rest (up to 4 KiB) is the stream, which ends where the input ends; the selected entry point reads "
        "PDU after PDU (at most 48) and every read is judged by the same damage oracle as the enumerated faults (no panic, completion within the poll budget, at most two reads "
        "after end-of-stream, bounded consumption, never Ok for a stream ending inside the PDU / a type the reader does not take / an impossible length, an accepted PDU ends where "
        "its length field says and writes back to the octets read). Headers announcing more than 1 MiB are not handed to the library there. Seeded with ~470 generated PDUs, "
        "sequences, truncations and length-damaged headers; executions are counted as evaluations, not as signatures. "
        "Connection level (native and ASan stages; thorough also a third of the Miri shards): the readers one level up are driven over a mock socket. "
        "(a) Client::step on a protocol-valid response transcript laid out by the independent encoder - Cache Response, 0..6 payload PDUs of the types the version carries, End of Data - "
        "for protocol versions 0..2 and five paths (reset query; serial query; serial query answered by Cache Reset then reset query; the last two again after a completed exchange "
        "and a Serial Notify on the same connection, i.e. with the version already negotiated; the client asks with the response's version or a higher one), in which exactly one "
        "header field of exactly one PDU is overwritten - at every PDU position: version (0..4, 0x7F, 0x80, 0xFE, 0xFF, two random), type (0..13, 0x7F, 0x80, 0xFF, one random), "
        "length (31 boundary values around 8/12/20/24/32 and the true length, up to 2^16+4), session/flags field (3 values) - or which ends after every octet count of the response, "
        "delivered all at once and in one of byte-wise+Pending / random chunk script (second pattern: version and truncation faults). The step future is polled by hand with a counting "
        "waker inside an entered, never driven paused-clock runtime. (b) the real Server::run with one mock connection fed a stream of 1..3 router PDUs (reset query, serial query with "
        "known / current / unknown state, Error Report, PDUs a router must not send, unsupported version, version switch) that ends at every octet count 0..=len (before the first header, "
        "inside a header, inside the serial query payload, inside an Error Report, after a complete and answered query), in one of the three delivery patterns, a quarter with a "
        "notification fired in the first scheduler turns; the driver yields turn by turn. One evaluation = one judged client step or one server connection run. "
        "Signatures: (client path, version, damage class, PDU position first/middle/last/only payload | cache response | end of data, PDU type, delivery) and "
        "(server: PDU the stream ends in, version, where it ends, delivery, notification?). "
        "(c) whole conversations (module c07_sess; same stages as (a)): one client, 2..4 exchanges on one connection, laid out by the independent encoder for versions 0..2 - per exchange "
        "a Serial Notify at the idle position (from the second exchange on), then either Cache Response, 0..3 payload PDUs, End of Data, or Cache Reset followed by such a response to the "
        "reset query (a third of the exchanges in which the client has state); a client with or without initial state asking with the transcript's version or a higher one; in a third of "
        "the transcripts with a higher asking version an 'unsupported protocol version' Error Report precedes the first response. The client is called once per exchange through "
        "Client::step or through Client::update + Client::apply (alternating per transcript), by hand as in (a), up to the call that reads the fault. One fault per run, at EVERY PDU of the "
        "transcript (idle/notify, version Error Report, Cache Reset, Cache Response, every payload PDU, End of Data, in every exchange): version octet (0, 1, 2, 3, 0x7F, 0xFF, one random), "
        "type octet (0..13, 0x7F, 0xFF, one random), length field (19 values: 0, 7..36 at the fixed sizes, true-4/-1/+1/+4/+8, true+2^16), the PDU resized coherently (cut or zero-padded to "
        "8..36 / true-4/+4/+8 octets with the length field saying so), the PDU replaced by each of 12 PDUs laid out with the session's version (one of every type of the library: Serial Notify, "
        "Serial Query, Reset Query, Cache Response, IPv4, IPv6, End of Data, Cache Reset, Router Key, two Error Reports, ASPA), each of these 12 inserted in front of it; and the stream ending "
        "after every octet count within 9 octets of a PDU boundary and every third one elsewhere. Delivery per transcript: all at once, byte-wise with Pending, or a random chunk/Pending script. "
        "One evaluation = one conversation run up to and including the judged call. Signatures: (entry point, version, damage class, reading position idle | first reply to serial query | first "
        "reply to reset query | payload sequence, role of the PDU, exchange 1 / 2 / 3+, delivery)."
    ),
    assumptions=[
        "the wire layout of the harness' encoder is the one of RFC 6810 / RFC 8210 and of the ASPA PDU as implemented (flags in the high octet of the session field, customer, providers)",
        "a header with a version outside 0..2 is only required to be handled without panic, spin or over-read: the PDU layer does not know the negotiated version, so acceptance is recorded as an observation (End of Data with version 0 must be 12 octets and with version 1/2 24 octets)",
        "an ASPA withdrawal read back may carry an empty provider list (the item is keyed by the customer)",
        "for a header that is still well-formed after a field was overwritten, acceptance and refusal are both allowed; if accepted the value must write back to exactly the octets read",
        "a read is 'bounded' when an accepted PDU ends exactly where its length field says and a refusal has taken no more than max(32, announced length) octets (32 = largest fixed layout); 'does not spin' means at most two reads after end-of-stream and completion within 16*(stream length+8)+64 polls",
        "memory allocated for an announced length is not judged (the library allocates the announced size for router keys and ASPA)",
        "connection level, what must end in Err from Client::step: a response in which exactly one PDU's version octet differs from all others (whichever version the client takes for the "
        "negotiated one, the next PDU at the latest announces a wrong one), a type octet no cache ever sends (1, 2, 5, 12..255; Serial Notify 0 is left open), a length no PDU of that type "
        "can have (fixed-size PDUs: any other value; Router Key < 32; ASPA < 12 or not 12+4k), a stream that ends before the End of Data is complete; the client must not have taken more than "
        "the damaged PDU and the one after it (version) / max(32, announced length) octets (type, length). Everything else (a type change that gives another well-formed PDU of a possible "
        "length, a still possible length of a variable-length PDU, a changed session/flags field) is recorded as accepted/refused, not judged; an undamaged transcript that is refused is "
        "reported as a note. A step that returns Pending without a wake-up (waiting on a timer) is recorded, not judged",
        "whole conversations (c07_sess), what must end in Err from the call that reads the fault - decided from the header the client finds at that reading position after the fault was "
        "applied, by a grammar of the router side of RFC 6810 / 8210: (1) a type no cache sends at that position: idle - anything but Serial Notify (an Error Report ends the session, so Err "
        "as well); first reply to a serial query - anything but Cache Response, Cache Reset (read on) and Error Report, Serial Notify (left open: version negotiation, 'ignore notifies during "
        "start-up'); first reply to a reset query - anything but Cache Response (read on) and Error Report, Serial Notify, Cache Reset (left open); between Cache Response and End of Data - "
        "anything but IPv4, IPv6, Router Key, ASPA, End of Data (read on) and Serial Notify (left open), so Error Reports, Cache Response, Cache Reset, queries and unassigned types must fail there; "
        "(2) for a type that is read on: a length no PDU of that type has (as above; Serial Notify 12, Cache Reset / Cache Response 8); (3) for a type that is read on with a possible length: a "
        "version octet other than the one every other PDU of the conversation carries - this includes the Serial Notify at the idle position and the Cache Reset (RFC 8210 section 7: a PDU of "
        "another version after negotiation ends the session); (4) a stream that ends before the last exchange is complete. Octets taken when giving up: at most max(32, announced length) from "
        "the judged header (type, length), the judged PDU plus the next one of the same exchange (version). A fault that leaves a header the grammar reads on with (a PDU replaced by or "
        "preceded by another payload PDU or End of Data, a still possible length, a resized Error Report) is recorded as accepted/refused; an earlier call that fails on undamaged octets and "
        "an undamaged transcript that is refused are recorded (note), not judged",
        "connection level, server: after the peer closed, the connection task must be gone (socket dropped) within 16*(stream length+8)+64 scheduler turns, without reading the socket more "
        "than twice after end-of-stream (the mock answers the third read with an error, which turns a busy loop on a closed socket into a bounded, observable event) and without sitting idle",
    ],
    level_text=(
        "Fault enumeration at the stream level: for every generated PDU and PDU sequence all truncation points and all values of the header's type and version octet "
        "(plus a boundary set of lengths) are executed against every public read entry point under three delivery patterns, with a reader that makes reads after "
        "end-of-stream countable and a manual poll loop that makes non-termination a bounded, observable event. Round trips are judged by identity against the "
        "value written and against an independent encoder. Miri repeats one value of every PDU type with all truncations (packed structs, raw slices, "
        "get_unchecked_mut in skip_payload); ASan repeats the native workload at reduced size. The thorough tier ends with 2 minutes of coverage-guided libFuzzer "
        "(16 forks, ASan build) over arbitrary byte streams through the same entry points and the same oracle, so payload octets and header fields are varied together, "
        "not one header field at a time. The connection-level part executes the same fault classes against the two stateful readers built on the PDU layer - Client::step (serial(), reset(), "
        "the first-reply readers, version bookkeeping across PDUs and across exchanges) and the server's connection task (header read raced against notifications) - at every PDU position "
        "of a response and every octet position of a query stream, with logical bounds (poll budget, scheduler-turn budget, reads after end-of-stream) instead of a clock. "
        "Whole conversations of 2..4 exchanges add the positions only a client with a completed exchange behind it reaches - the idle wait for a Serial Notify, Cache Reset and the fallback "
        "to a reset query, the version Error Report - with faults at every PDU of the conversation judged per reading position."
    ),
    level_note=(
        "Field values and multi-PDU sequences are sampled, not enumerated; PDUs above 4 KiB get a boundary-dense subset of truncation points; "
        "byte-wise delivery is complete only up to 160 octets per stream. A spin inside one poll that never touches the reader would only be seen by the outer watchdog (inconclusive). "
        "Connection level: one damaged header field per transcript, values of the fields sampled at boundaries; the server's output side never blocks in this workload (C08 covers that). "
        "Whole conversations: one fault per conversation; the client's clock never moves (the refresh timer of the idle wait does not fire), the target accepts everything, "
        "what the client writes (queries, Error Reports) is kept in the detail but not judged here (C06)."
    ),
    technique="runtime oracle + fault enumeration (truncating AsyncRead, poll budget; PDU readers, Client::step / update+apply over single responses and over multi-exchange conversations with a per-position grammar, the server connection task) + Miri/ASan + libFuzzer",
    design_ref="DESIGN.md §4 C07",
)
