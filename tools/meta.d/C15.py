prop(
    "C15",
    quick=[("native", 8), ("miri", 4)],
    thorough=[("native", 16), ("miri", 8)],
    level="exploration",
    min_evals={"quick": 500_000, "thorough": 15_000_000},
    rule=(
        "Drop decision: filter specifications are every combination of present/absent criteria with values chosen to match or miss by exactly one "
        "attribute: 31 prefix-filter specs ({absent, 0/0, 10/8, 10.1/16, 10.1.1/24, 10.2/16, 10.1.1.1/32, ::/0, 2001:db8::/32, 2001:db8::1/128} x "
        "{no ASN, AS64500, AS64501}, plus comment-only), 13 BGPsec specs ({no SKI, K, K with last bit flipped, K with first bit flipped} x 3 ASN "
        "choices, plus comment-only), 10 ASPA specs ({absent, 64500, 64501, 0, 2^32-1} x comment?). Both tiers enumerate ALL ordered lists of "
        "0..3 filters of one kind (30 784 + 2 380 + 1 111 lists) in two contexts (no other filters / a criterion-free and an AS64500-only filter in each "
        "other kind, ASPA member absent or empty), plus all mixed files of one filter per kind over a reduced grid, and ask SlurmFile::drop_payload and "
        "ValidationOutputFilters::drop_payload about 15 payload items (7 origins incl. v6 and v4-mapped, 4 router keys, 4 ASPAs); every single filter is "
        "also asked through drop_payload / drop_origin / drop_router_key / drop_aspa. Oracle: the formula of the statement over plain tuples "
        "(drop <=> some filter of the item's kind has >= 1 criterion and all present criteria match; covers = same family, not longer, equal leading bits). "
        "JSON: 5 000 (quick) / 2 000 000 (thorough) random files (0..4 entries per list, ASPA members present/absent, comments with arbitrary Unicode incl. "
        "controls, quotes, U+2028, astral planes; key info 0..199 octets; unsorted / duplicate / 2000 providers): from_str(to_string) and "
        "from_str(to_string_pretty) and from_reader must equal the file; iter_payload() must yield, in order, exactly the fields the assertions were "
        "built from; the same data written as RFC 8416 JSON by the harness is parsed (acceptance recorded, not demanded) and, if accepted, must yield the "
        "same items, the same drop decisions and survive a round trip. "
        "A case signature is (payload kind, per filter: criteria presence and per-criterion outcome incl. prefix relation equal / less-specific / "
        "more-specific / disjoint / other-family, expected decision) for files with a non-empty own-kind list, (single filter class) and (JSON shape class); "
        "evaluations counts single oracle comparisons."
        " JSON transports of every generated file besides from_str / from_reader: the same document with string contents (and member names) written as JSON escapes (\\/ and \\uXXXX, which no deserialiser can lend out of its input), serde_json::to_value -> from_value, and the harness token format read back with borrowed, transient and owned strings; each must give an equal file."
        "iter_payload() is also advanced with nth / skip / step_by / last / count and alternating next / nth for every distance up to the length plus one and must yield what plain stepping yields; size_hint must not exclude the truth. "
    ),
    assumptions=[
        "key identifiers are plain 20-octet values (no hashing); router key info is opaque octets",
        "acceptance of hand-written RFC 8416 JSON is observed, not demanded (the statement only speaks about the file's own serialisation)",
        "filter lists longer than 3 and criteria values outside the listed ones are covered only by the random JSON files' drop checks",
        "Miri cannot afford the enumeration and draws random files from the same space",
    ],
    level_text=(
        "Runtime oracle (the statement's formula over plain tuples) over the complete space of filter lists up to length 3 built from every "
        "criteria-presence combination with match/miss values, against payload items of all three kinds, in both tiers; random JSON files for the "
        "round trip and for iter_payload faithfulness; Miri repeats a random subset. Complete enumeration of the small combination space is the natural level here."
    ),
    level_note="Trusts the harness' 30-line match formula and serde_json for reading back the library's output; longer lists and other criteria values are sampled only.",
    technique="runtime oracle over exhaustive enumeration of filter-list combinations + randomised JSON round trip + Miri",
    design_ref="DESIGN.md §4 C15",
    exhaustive_scope="native stage, both tiers: all ordered lists of 0..3 filters of one kind over the 31 / 13 / 10 filter specifications, in 2 contexts of other-kind filters, against the 15 payload items; all single filters against all items",
)
