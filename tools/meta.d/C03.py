prop(
    "C03",
    quick=[("native", 16), ("miri", 4)],
    thorough=[("native", 16), ("asan", 8), ("miri", 8)],
    level="exploration",
    min_evals={"quick": 2_000_000, "thorough": 100_000_000},
    rule=(
        "block sequences (0..12 blocks) over boundary-dense endpoints {0,1,2,MAX-1,MAX,2^k,2^k+-1,aligned,all-ones,random} for AS numbers, "
        "IPv4 (upper 32 bits convention) and IPv6, arranged sorted / reversed / shuffled / appended with duplicates, overlaps, adjacency, nesting and bridging blocks; "
        "each sequence goes through one constructor: from_iter with canonical blocks, raw ranges or prefixes, builder (push / Extend), or one entry of the entry-point tables written from the pub surface of "
        "resources/{ipres,asres,set,choice}.rs and src/resources/addr.rs — text: Ipv4Blocks/Ipv6Blocks/IpBlocks/AsBlocks/AsResources::from_str, their serde Deserialize twins, ResourceSet::from_strs and ResourceSet Deserialize (incl. field aliases), "
        "and the single-block parsers IpBlock::from_str/from_v4_str/from_v6_str, AddressRange/Prefix::from_str/from_v4_str/from_v6_str, Ipv4Block/Ipv6Block::from_str (typed FromIterator), resources::Prefix -> IpBlock, AsBlock::from_str, each followed by a public collector (FromIterator, builder push, builder Extend); "
        "DER (independent writer): IpBlocks::take_from / take_from_with_family, IpResources::take_from / take_families_from, AsBlocks::take_from, AsResources::take_from, and the single-value decoders IpBlock::take_opt_from / take_opt_from_with_family, "
        "Prefix::take_from / parse_content / parse_content_with_family, AsBlock::take_opt_from (whole list and item by item) followed by a collector; "
        "once per batch and flavour one hostile list (generated sequence plus blocks ending at the last / starting at the first element, the whole space, zero-length blocks, and in half of the cases one reversed range) is offered to *every* entry of both tables: rejected, or canonical and (without a reversed range) equal to the model; "
        "and every returned set is checked for canonical form and for equality of denotation with an interval-set model; all ordered pairs inside batches run every set operation, "
        "membership / block / ROA-prefix questions at boundary points, issuance (refuse / trim / inherit / missing), coverage, text / serde / DER round trips, counts and bounded iteration; "
        "every public structural encoder of a collection, its wrappers and its blocks (IpBlocks::encode / encode_ref / encode_family, IpResources::encode / encode_ref / encode_family / encode_extension, IpBlock / Prefix / AddressRange::encode, "
        "AsBlocks::encode / encode_ref, AsResources::encode / encode_ref / encode_extension) is read back with the independent DER reader: the SEQUENCE OF found where RFC 3779 puts it must denote the model and be canonical; "
        "ResourceSet algebra and RequestResourceLimit::apply_to on triples; range-to-prefix decomposition (into_prefix, IpBlock::from((min,max)), to_v4_prefixes / to_v6_prefixes: ordered, disjoint, aligned, exact cover), half of the ranges ending at the last address of the family, starting at the first, or spanning everything. Additionally every sequence of up to 3 (quick) / 4 (thorough) blocks over the pool {0,1,2,3,4,MAX-1,MAX} is collected (exhaustive sub-space). "
        "A case signature is (flavour, constructor / entry point or operation, size class, arrangement, derived-block tags, touches-0, touches-MAX), (flavour, entry point, reversed range present, canonical encoding) or (flavour, pair relation, operand size classes); a pair of two empty sets is trivial."
    ),
    exhaustive_scope="only the small-sequence sub-space named in the rule is exhaustive; everything else is sampled",
    assumptions=[
        "programmatically constructed reversed blocks (AsRange::new(5,3)) are precondition violations and are not fed to from_iter",
        "for text or DER input that is not canonical (unsorted, overlapping, reversed) rejection is accepted; if accepted the result must be canonical (and, for non-reversed input, denote the union); a canonical DER encoding must be accepted by every decoder",
        "single blocks obtained from the single-value decoders / parsers are judged after one of the public collectors made a collection of them (the statement is about collections); a range-to-prefix cover that is exact but longer than the minimal one is only counted",
        "asn_count is compared only when the count fits u32",
        "the interval-set model (harness/src/model.rs) and the independent DER reader/writer are trusted",
    ],
    level_text=(
        "Runtime oracle: every set the public API returns is compared with an independent interval-set model and an independent canonical-form predicate, "
        "over millions of generated sequences and all pairs within batches, plus hook H1 which checks the chain invariant on every chain created inside the library during the workload; "
        "Miri and ASan repeat a reduced workload over the transmute / from_vec_unchecked code. Exploration is the honest level: the input space is unbounded, a small sub-space is enumerated completely."
    ),
    level_note="Trusts the 100-line interval model and the harness DER codec; sampled, not exhaustive, beyond the stated sub-space.",
    technique="reference-model monitor + invariant hook (H1) + Miri/ASan",
    design_ref="DESIGN.md §4 C03",
)
