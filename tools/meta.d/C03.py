prop(
    "C03",
    quick=[("native", 16), ("miri", 4)],
    thorough=[("native", 16), ("asan", 8), ("miri", 8)],
    level="exploration",
    min_evals={"quick": 2_000_000, "thorough": 100_000_000},
    rule=(
        "block sequences (0..12 blocks) over boundary-dense endpoints {0,1,2,MAX-1,MAX,2^k,2^k+-1,aligned,all-ones,random} for AS numbers, "
        "IPv4 (upper 32 bits convention) and IPv6, arranged sorted / reversed / shuffled / appended with duplicates, overlaps, adjacency, nesting and bridging blocks; "
        "each sequence goes through one constructor (from_iter with canonical blocks, raw ranges or prefixes, builder, FromStr typed and generic, RFC 3779 DER via three decoder entry points) "
        "and every returned set is checked for canonical form and for equality of denotation with an interval-set model; all ordered pairs inside batches run every set operation, "
        "membership / block / ROA-prefix questions at boundary points, issuance (refuse / trim / inherit / missing), coverage, text / serde / DER round trips, counts and bounded iteration; "
        "ResourceSet algebra and RequestResourceLimit::apply_to on triples; range-to-prefix decomposition. Additionally every sequence of up to 3 (quick) / 4 (thorough) blocks over the pool {0,1,2,3,4,MAX-1,MAX} is collected (exhaustive sub-space). "
        "A case signature is (flavour, constructor or operation, size class, arrangement, derived-block tags, touches-0, touches-MAX) or (flavour, pair relation, operand size classes); a pair of two empty sets is trivial."
    ),
    exhaustive_scope="only the small-sequence sub-space named in the rule is exhaustive; everything else is sampled",
    assumptions=[
        "programmatically constructed reversed blocks (AsRange::new(5,3)) are precondition violations and are not fed to from_iter",
        "for text or DER input that is not canonical (unsorted, overlapping, reversed) rejection is accepted; if accepted the result must be canonical (and, for non-reversed input, denote the union)",
        "asn_count is compared only when the count fits u32",
        "the interval-set model (harness/src/model.rs) and the independent DER reader/writer are trusted",
    ],
    level_text=(
        "Runtime oracle: every set the public API returns is compared with an independent interval-set model and an independent canonical-form predicate, "
        "over millions of generated sequences and all pairs within batches, plus hook H1 which checks the chain invariant on every chain created inside the library during the workload; "
        "Miri and ASan repeat a reduced workload over the transmute / from_vec_unchecked code. Exploration is the honest level: the input space is unbounded, a small sub-space is enumerated completely."
    ),
    level_note="Trusts the 100-line interval model and the harness DER codec; sampled, not exhaustive, beyond the stated sub-space.",
    technique="reference-model monitor + invariant hook (H1) + Miri/ASan",
    design_ref="DESIGN.md §4 C03",
)
