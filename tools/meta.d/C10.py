prop(
    "C10",
    quick=[("native", 16)],
    thorough=[("native", 16), ("asan", 8), ("valgrind", 4)],
    level="exploration",
    min_evals={"quick": 25000, "thorough": 700000},
    rule=(
        "(1) messages created by the library (SignedMessage::create with chosen validities from 1 s to 400 d, ProvisioningCms::create, PublicationCms::create) are encoded, "
        "their EE validity and CRL window are read back from the DER by the harness' own reader, then decoded again and validated under the issuing key at notBefore-1, notBefore, "
        "notBefore+1, the middle, a random inside instant, notAfter-1, notAfter, notAfter+1 and under every other pool key. "
        "(2) messages assembled by the harness' own RFC 5652 / 6492 / 8181 encoder: identity EE certificate and CRL written with the DER writer and signed with aws-lc-rs directly "
        "(EE with / without AKI, basicConstraints absent / cA default / cA TRUE / explicit FALSE, six serial shapes; CRL with / without AKI, revokedCertificates absent / empty / others / "
        "listing the EE serial at every position with and without entry extensions, signed by the peer or a forger with every AKI flavour), EE and CRL windows nested, overlapping, "
        "one-instant, disjoint and across 2050, each evaluated at every boundary instant and 1 s outside; signed attributes padded with unknown attributes to totals 124..130, 200, 254..258, 300, 1000, 4000 "
        "and random, binary-signing-time, shuffled attribute orders under both signature inputs; eleven CMS-level tampers (eight asserted) also combined with long attributes; eight BER re-encodings; "
        "decoded through SignedMessage::decode (strict and relaxed), ProvisioningCms::decode and PublicationCms::decode; validated under the peer key and under forger / EE / unrelated keys; "
        "single-bit flips classified through the harness' DER reader into covered regions (eContent, signedAttrs, signature, sid, digest OIDs, EE TBS and signature, CRL TBS and signature; rejection asserted) "
        "and uncovered ones (recorded) - thorough enumerates every covered bit of four messages. "
        "(2b) the CRL of a valid message gets one more extension (freshestCRL, authorityInfoAccess, issuerAltName, private OIDs with NULL / empty SEQUENCE / two values; one critical private OID) at the first, "
        "middle or last position and is signed again by the peer key: non-critical ones must still validate through all four entry points, the critical unknown one is recorded. "
        "(3) the library's own in-memory signer (crypto::softsigner::SoftSigner) under a history of calls, one history per shard (12 in thorough): 3-6 keys enter through key_from_der, key_from_pem(PKCS#8) "
        "(cached pool keys, public half known to the harness) and create_key (public key recorded right after creation); then 5-8 steps of destroy_key (mostly not the newest key), further imports, "
        "sign_one_off, and SignedMessage / ProvisioningCms / PublicationCms::create under live ids created before and after a destroyed one and under destroyed ids. After every step, for every id: "
        "get_key_info must still return the recorded key, sign must verify (aws-lc-rs directly) under the recorded key of that id and of no other; a created message must validate under the key recorded for its id "
        "and under no other key of the history; a destroyed id may refuse or keep using its own key (recorded) but must not sign with another key. "
        "(4) instants between seconds and keys above 2048 bits: a list of jobs per round, dealt to the shards. (4a) SignedMessage::create (strict and relaxed decoding, windows of 1 s .. 1 d, some crossing or ending with 2049), "
        "ProvisioningCms::create and PublicationCms::create through a Signer of the harness (c10_keys::SizedSigner) whose identity key and one-off EE key are RSA-2048, RSA-3072 or RSA-4096 in all nine pairings: "
        "validated before encoding (middle) and after decoding at the middle, at both ends, and at B-1s+f and B+f for every bound B of the EE and the CRL window read from the DER and f = 1 ns, 0.5 s, 1 s - 1 ns, "
        "under the peer key; in the middle under the EE key itself and under other keys of every size. (4b) the independent assembler with the same nine pairings (EE certificate and CRL signed by the big peer key, "
        "signed attributes signed by the big EE key) through all four decoders with short and long signed attributes and every AKI flavour, run through the whole-second plan of (2) and the between-seconds plan; "
        "three of seven single violations per pairing and round under the same keys (signature by another key of the same size, signature over the [0] form, digest bit, cA TRUE, EE serial on the CRL, EE or CRL signed by another key of the peer's size). "
        "(4c) fourteen window layouts (EE ends first, CRL ends first, nested both ways, equal, one-instant EE / CRL, touching, one second, across 2050, ending with 2049, three random) at the same between-seconds instants, "
        "every third one under big keys. Expectation: an instant s+f lies in [a, b] iff s >= a and (s < b or (s = b and f = 0)). "
        "A case signature is (entry point, attribute order, signed-attrs size class, violated condition or none, CRL shape, EE AKI / basicConstraints shape, BER variant, "
        "time position relative to both windows, key relation) or (flip, entry point, region, decoded?) or, for (4), (entry point, key-size pairing, AKI flavours, position relative to both windows with the seconds "
        "next to each end told apart, which fraction). evaluations = validate_at (or failed decode) results judged by the oracle."
        "CRL entries listing the EE certificate carry revocation dates before, at and after thisUpdate, after every evaluation instant, beyond nextUpdate and decades ahead; additional signed attributes take every shape of SET SIZE (1..MAX) OF AttributeValue (one, two, three values, mixed types, nested SEQUENCE, NULL / BOOLEAN). "
    ),
    assumptions=[
        "keys come from caches under .build/keys: six RSA-2048 pool keys, three RSA-3072 and two RSA-4096 keys (generated with aws-lc-rs by the first run, kept in a process-wide OnceLock); only RSA: the CMS signature algorithm of these messages is sha256WithRSAEncryption, "
        "keys above 4096 bits are not tried; under valgrind the big keys are used only if an earlier stage has cached them (key generation there takes minutes), otherwise the key-size cases are skipped and a note says so",
        "evaluation instants of parts (1)-(3) are whole seconds; part (4) evaluates between seconds: X.509 times are whole seconds and both ends of a window are inclusive, so an instant later than notAfter / nextUpdate by any fraction is outside, one earlier than notBefore / thisUpdate by any fraction is outside, and every instant in between is inside",
        "library-created messages are judged against the validity that was asked for (SignedMessage::create, whole seconds) or the one found in their DER (the two wrappers), after re-decoding; before encoding only the middle instant is judged because the wrappers keep the fractions of the wall clock in memory",
        "RFC 6492 / 8181 / 8183 do not restrict identity and identity-EE keys to RSA-2048 (RFC 7935 profiles the RPKI proper) and the Signer trait leaves the one-off key to the signer, so a correctly signed message under RSA-3072 / RSA-4096 keys meets every condition of the statement",
        "ProvisioningCms::create / PublicationCms::create take their validity from the wall clock (now +- 5 min); the harness reads it back from the DER, no verdict depends on the clock",
        "outside the statement and only recorded: sid different from the EE key identifier, missing signing-time, foreign eContentType, AKI naming another key although the peer signed, explicit FALSE in basicConstraints, "
        "present-but-empty revokedCertificates, GeneralizedTime before 2050 in the CRL, CRL with an empty extension list, BER encodings under strict decoding",
        "an unsorted SET OF signedAttrs is run under both signature inputs (as transmitted, DER-sorted); at least one of the two must validate",
        "the largest signed-attribute set tried is 4000 octets",
        "RFC 6492 / 8181 / 8183 do not profile the CRL of the business PKI (RFC 6487 section 5 restricts RPKI CRLs only) and RFC 5280 lets a verifier ignore unknown non-critical extensions, so a CRL with such an extension still meets every condition of the statement",
        "SoftSigner histories need RSA key generation (create_key and the one-off EE key of every created message): one short history per shard natively and under ASan, none under valgrind",
        "a certificate listed on the CRL is revoked whatever the entry's revocation date says (the statement: 'does not list the EE certificate')",
    ],
    level_text=(
        "Runtime oracle: the conjunction in the statement (digest, signature over the DER SET OF of all signed attributes, EE signed by the peer key / current / not a CA, CRL signed by the peer key / current / "
        "not listing the EE) is evaluated from the parameters the harness chose and compared with validate_at at boundary-dense instants and under several keys. Quick: about 600 library-created and 5 000 "
        "independently encoded messages (about 50 000 validations) plus 8 000 classified bit flips, and a small ASan stage; thorough: 12 000 + 150 000 messages (about 1.2 million validations), "
        "every covered bit of four messages, an ASan stage (600 + 5 000 messages, 12 000 flips) and valgrind memcheck (8 + 48 messages, 1 200 tampered decodes). "
        "Part 4 (instants between seconds, RSA-2048 / 3072 / 4096 peer and EE keys in all nine pairings) adds in quick about 100 library-created and 220 assembled messages (about 5 000 validations, 3 500 of them "
        "between seconds: every second next to an end of the EE or the CRL window, on both sides, is reached), in thorough 4 000 + 8 300 messages (190 000 validations, 136 000 between seconds), 330 jobs under ASan and 8 under valgrind."
    ),
    level_note="Trusts the harness' CMS / X.509 / CRL writer and aws-lc-rs as signing and digest oracle; explores a structured sample of messages, times and keys.",
    technique="runtime oracle over library-created and independently encoded CMS messages + single-point tampering + classified bit flips + model-checked call histories on the library's own signer "
              "+ sub-second evaluation instants next to every window end + a harness Signer and assembler with RSA-3072 / RSA-4096 identity and one-off keys; ASan; valgrind memcheck",
    design_ref="DESIGN.md §4 C10",
)
