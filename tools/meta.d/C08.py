prop(
    "C08",
    quick=[("native", 16), ("miri", 4)],
    thorough=[("native", 16), ("asan", 8), ("miri", 8)],
    level="exploration",
    min_evals={"quick": 12_000, "thorough": 1_000_000},
    rule=(
        "One evaluation = one schedule executed against the real Server::run over a scripted in-memory socket (current-thread tokio runtime, "
        "paused clock) and judged: candidate output with Serial Notify PDUs removed (each checked: 12 bytes, not between Cache Response and "
        "End of Data, not more than notifications fired) must be byte-identical to the output of the same client bytes delivered in one piece "
        "without notification; the reference run itself is one evaluation of the model oracle (one complete response per well-formed query in "
        "order, an Error PDU for the first malformed one, nothing after the last response). "
        "Client streams: 26 fixed ones (10 in quick) plus seeded random ones (16 in quick, 240 in thorough; another 48 / 1000 are used for "
        "random schedules only), 1-4 items from {Reset Query, Serial Query current/old/unknown session/unknown serial, wrong length field, "
        "unsupported version, version switch, unknown PDU type, client Error PDU, garbage}, against a constant source (ready, or not ready). "
        "Schedules per stream: (a) every single cut position x {no notify, notify after settling at the cut, double notify} and (d) "
        "chunk+notify / notify+chunk handed to the scheduler in the same tick, notify before the connection task starts; "
        "(b) every pair of cuts with a notify in the first, second or both gaps (streams up to 20 bytes in quick, 44 in thorough); "
        "(c) byte-by-byte delivery with a notify at every / one / every k-th position, settled or in the same tick; "
        "(e) output capacity limited to k bytes (every k up to the response length in thorough) with notifications fired while the server "
        "is blocked writing and the client draining 1 / 7 / 20 bytes at a time; (g) the same kinds of schedule on a socket that delivers to "
        "the client only what the server has flushed (like a buffered writer or a TLS stream): whenever the connection is found parked on "
        "its read side, nothing written may be left unflushed, and the delivered output must equal the reference; "
        "for streams of well-formed queries only there is also a lower bound on Serial Notify PDUs: every notification fired right after "
        "a quiescent point at a connection parked between queries or inside a header (sender alive) must produce its own Serial Notify, "
        "also after a burst the one-slot channel could not hold; (f) seeded random schedules mixing all of these "
        "(20 k in quick, 1.6 M in thorough). Miri runs 32 (quick) / 136 (thorough) single-cut, same-tick, back-pressure and random schedules "
        "over three streams, ASan the enumerated classes for 66 streams plus 40 k random schedules. "
        "A case is non-trivial when it has a notification, more than one chunk or limited output capacity. distinct_nontrivial counts classes "
        "(stream or stream shape, schedule variant, set of server positions at which notifications fired "
        "[idle / 1..7 header bytes / 0..3 payload bytes / mid-response / blocked / closed, with query index for the fixed streams], "
        "cut positions for notify-free cases, capacity); random schedules are classed by the kinds of positions hit only. "
        "The observations list how many notifications fired at each server position. "
        "(h) sockets that report is_write_vectored() and take a vectored write as one write that may stop at any offset, also inside the "
        "first slice, with the capacity walking through every offset of the response (every 5th in quick). "
        "Wide part (c08_wide.rs), also one evaluation per script: several scripted connections (plain / buffering / vectored, limited "
        "capacity) on one Server::run behind a scripted listener that yields connections at chosen moments, yields an error, or ends; "
        "companion connections are well-behaved, stalled (blocked writing, inside a header or payload), or misbehaving (garbage, client "
        "Error PDU, unsupported version, half a header then EOF, silent). Every connection is judged on its own against its "
        "single-connection reference, Serial Notify per connection bounded from above by the notifications fired after it was accepted and "
        "from below by those fired at a settled moment while it was parked (well-formed streams only); a violation is attributed by "
        "re-running without the listener events / without the other connections. 31 enumerated script families per connection of interest "
        "(every cut x listener error / end, two-connection stalls) plus seeded random scripts of 1-3 connections. Large responses: sources "
        "whose router key info and ASPA provider list have 0 .. 65000 octets around the powers of two, served on all four socket kinds with "
        "the capacity granted in pieces (1 .. 8193 octets); each output is compared with the octets RFC 8210 / 8210bis prescribe, built by "
        "the harness' own PDU encoder from its own description of the source (payload PDUs of one response as a multiset), and with the "
        "trivial schedule."
    ),
    assumptions=[
        "single-threaded scheduler; poll order is the one tokio's current-thread runtime produces for the driver's step order (deliver/notify in either order within one tick, or separated by a quiescent point)",
        "the payload source holds constant data during a run, so a notification can never legitimately change a response",
        "server positions (header n of 8, payload n of 4) are derived from bytes consumed from the socket and the documented framing (8-byte header, 4-byte Serial Query payload); they name evidence classes and violations, the verdict itself only compares output bytes",
        "after the first Error PDU the model oracle demands nothing further of the reference (closing or resynchronising are both accepted); the differential oracle still requires every schedule to do the same as the reference",
        "the scripted socket hands over all buffered bytes a read asks for and accepts partial writes up to its capacity, in buffering mode delivers on poll_flush only, in vectored mode accepts a prefix of the concatenated slices; other socket behaviours (write errors, spurious wake-ups) are not generated",
        "an error or the end of the listener stream, and whatever other connections do, are not inputs of an established connection: it must go on answering exactly as its single-connection reference does",
        "payload PDUs within one response may come in any order (compared as a multiset); Cache Response, End of Data (with the source's timing) and Cache Reset must be the prescribed octets",
        "a Serial Notify is owed only where the statement makes it unambiguous: notification fired alone after a quiescent point, connection parked reading a header, only well-formed queries in the stream; coalescing of bursts and notifications during a response are only bounded from above",
    ],
    level_text=(
        "Differential runtime monitor over enumerated and random arrival schedules of the real server: all single cuts and (for streams up to "
        "44 bytes) all pairs of cuts crossed with notification placement, byte-wise delivery, same-tick races and output back-pressure, "
        "compared against the trivial schedule, plus a model oracle on the trivial schedule. Miri and ASan repeat a subset. The property "
        "quantifies over schedules of a single-threaded scheduler, which is exactly what a scripted socket on a current-thread runtime can "
        "enumerate; it is exploration, not proof, because streams and schedules beyond those bounds are sampled."
    ),
    level_note=(
        "Trusts the harness' 8-byte-header PDU splitter and the scripted socket. Only schedules expressible as deliver / notify / settle / "
        "drain steps are explored; up to three connections per server; real TCP behaviour and multi-threaded runtimes are out of reach."
    ),
    technique="differential runtime oracle over enumerated schedules (scripted sockets and listener, deterministic stepping, several connections) + prescribed-octets model oracle + Miri/ASan",
    design_ref="DESIGN.md §4 C08",
)
