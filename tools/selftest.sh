#!/bin/sh
# usage: tools/selftest.sh <property> <patch> [tier]
# Applies a mutant patch to /repo, runs the property's check, undoes the patch.
# Prints CAUGHT / MISSED. Never leaves /repo modified.
id="$1"; patch="$2"; tier="${3:-quick}"
cd /verif
if ! git -C /repo diff --quiet; then echo "repo dirty, refusing"; exit 3; fi
case "$patch" in /*) ;; *) patch="/verif/$patch";; esac
if ! git -C /repo apply "$patch"; then echo "patch does not apply: $patch"; exit 3; fi
out=$(./check "$id" "$tier" 2>&1); rc=$?
git -C /repo checkout -- . 
echo "$out" | grep -E "VIOLATION|KNOWN-FINDING|INCONCLUSIVE|HELD" | head -8
if [ $rc -eq 1 ]; then echo "CAUGHT $id $(basename $patch) tier=$tier"; else echo "MISSED $id $(basename $patch) tier=$tier rc=$rc"; fi
