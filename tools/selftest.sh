#!/bin/sh
# usage: tools/selftest.sh <property> <patch> [tier]
# Applies a mutant patch to the rpki-rs checkout this framework copy is linked against
# (/repo for /verif itself; a scratch worktree for a copy made with tools/mkworkspace.sh),
# runs the property's check, undoes the patch. Prints CAUGHT / MISSED. Never leaves the checkout modified.
id="$1"; patch="$2"; tier="${3:-quick}"
root="$(cd "$(dirname "$0")/.." && pwd)"
repo=$(sed -n 's/^rpki *= *{ *path *= *"\([^"]*\)".*/\1/p' "$root/harness/Cargo.toml")
cd "$root"
case "$patch" in /*) ;; *) patch="$root/$patch";; esac
if ! git -C "$repo" diff --quiet; then echo "repo dirty, refusing"; exit 3; fi
if ! git -C "$repo" apply "$patch"; then echo "patch does not apply: $patch"; exit 3; fi
# the evidence file describes the unchanged tree: keep it out of the way of the mutant run
ev="$root/evidence/$id.json"; bak="$root/.build/evidence-$id.keep.$$"
mkdir -p "$root/.build"; [ -f "$ev" ] && cp "$ev" "$bak"
out=$(./check "$id" "$tier" 2>&1); rc=$?
git -C "$repo" checkout -- .
if [ -f "$bak" ]; then mv "$bak" "$ev"; fi
echo "$out" | grep -aE "VIOLATION|KNOWN-FINDING|INCONCLUSIVE|HELD" | head -8
if [ $rc -eq 1 ]; then echo "CAUGHT $id $(basename $patch) tier=$tier"; else echo "MISSED $id $(basename $patch) tier=$tier rc=$rc"; fi
