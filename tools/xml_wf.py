#!/usr/bin/env python3
"""Independent XML well-formedness oracle (expat), used by the C11 monitor.

stdin : a stream of documents, each preceded by its length as a 4-byte
        big-endian unsigned integer.
stdout: one JSON line
          {"count": N, "first_bad": i | null, "bad": [[i, "expat message"], ...]}
        `bad` lists at most 32 documents that expat refuses (index = position
        in the stream, starting at 0); `first_bad` is the smallest such index.

A document is well-formed iff a fresh expat parser consumes it completely
(`Parse(doc, True)`) without raising. Nothing of the library under test is
involved. Exit status 0 whenever the stream itself could be read, 3 when the
framing is broken.
"""
import json
import struct
import sys
import xml.parsers.expat


def check(doc):
    parser = xml.parsers.expat.ParserCreate()
    try:
        parser.Parse(doc, True)
    except xml.parsers.expat.ExpatError as err:
        return str(err)
    return None


def main():
    data = sys.stdin.buffer.read()
    pos = 0
    count = 0
    bad = []
    nbad = 0
    first = None
    while pos < len(data):
        if pos + 4 > len(data):
            print(json.dumps({"error": "truncated length prefix", "count": count}))
            return 3
        (n,) = struct.unpack(">I", data[pos:pos + 4])
        pos += 4
        if pos + n > len(data):
            print(json.dumps({"error": "truncated document", "count": count}))
            return 3
        msg = check(data[pos:pos + n])
        pos += n
        if msg is not None:
            nbad += 1
            if first is None:
                first = count
            if len(bad) < 32:
                bad.append([count, msg])
        count += 1
    print(json.dumps({"count": count, "first_bad": first, "nbad": nbad, "bad": bad}))
    return 0


if __name__ == "__main__":
    sys.exit(main())
