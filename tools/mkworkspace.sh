#!/bin/sh
# Creates a private development workspace for one monitor author:
#   /tmp/wk/<name>/repo   git worktree of /repo (HEAD), free to patch
#   /tmp/wk/<name>/verif  copy of /verif (no .git, no .build) linked against that worktree
set -e
name="$1"
base=/tmp/wk/$name
mkdir -p "$base"
git -C /repo worktree add --detach "$base/repo" HEAD >/dev/null 2>&1
rsync -a --exclude .git --exclude .build --exclude 'harness/target' /verif/ "$base/verif/"
sed -i "s#path = \"/repo\"#path = \"$base/repo\"#" "$base/verif/harness/Cargo.toml"
cp "$base/repo/Cargo.lock" "$base/verif/harness/Cargo.lock"
# start from the dependency artefacts already built for /verif (the workspace's own crates get rebuilt)
if [ -d /verif/.build ] && [ ! -d "$base/verif/.build" ]; then
  mkdir -p "$base/verif/.build"
  for d in native asan miri; do [ -d /verif/.build/$d ] && cp -a /verif/.build/$d "$base/verif/.build/$d"; done
fi
echo "$base"
