#!/usr/bin/env python3
"""Regenerates /verif/MANIFEST.json from tools/meta.py."""
import json, os, subprocess, sys
ROOT = os.path.dirname(os.path.dirname(os.path.abspath(__file__)))
sys.path.insert(0, os.path.join(ROOT, "tools"))
from meta import META, NOT_APPLICABLE, HOOK_COMMITS

ids = [json.loads(l)["id"] for l in open(os.path.join(ROOT, "properties.jsonl"))]
checks = []
for pid in ids:
    if pid not in META:
        continue
    m = META[pid]
    checks.append({
        "property_id": pid,
        "quick_cmd": "./check %s quick" % pid,
        "thorough_cmd": "./check %s thorough" % pid,
        "evidence_file": "evidence/%s.json" % pid,
        "replay_cmd_template": "./check %s --replay {path}" % pid,
        "engine": "vcheck",
        "level_claimed": {"category": m["level"], "text": m["level_text"], "design_ref": m["design_ref"]},
        "level_note": m["level_note"],
        "technique": m["technique"],
    })
na = []
for pid in ids:
    if pid not in META:
        na.append({"property_id": pid, "reason": NOT_APPLICABLE.get(pid, "monitor not built yet in this round; property not claimed")})
manifest = {
    "version": 1,
    "setup_cmd": "./setup.sh",
    "hooks": {
        "guard": "cargo feature `verif-hooks` of crate rpki (off by default)",
        "enable": "harness/Cargo.toml depends on rpki = { path = \"/repo\", features = [..., \"verif-hooks\"] }; every ./check rebuilds it from /repo's working tree",
        "baseline_off_cmd": "cd /repo && cargo test --workspace --no-fail-fast --offline",
        "source_commits": HOOK_COMMITS,
        "add_only": True,
    },
    "engines": [{
        "name": "vcheck",
        "path": "harness/",
        "serves_properties": [c["property_id"] for c in checks],
        "kind_free_text": "Rust harness crate linked against /repo (path dependency) running generated workloads under oracles; the same binary is run natively (overflow checks on), under AddressSanitizer, under Miri and under valgrind memcheck by ./check, which shards, merges evidence and applies known_findings.json",
    }],
    "checks": checks,
    "not_applicable": na,
    "notes": "Runtime monitoring only: every verdict is 'held on the executions explored'. See DESIGN.md.",
}
json.dump(manifest, open(os.path.join(ROOT, "MANIFEST.json"), "w"), indent=1)
print("checks:", [c["property_id"] for c in checks], "not claimed:", [n["property_id"] for n in na])
