#!/bin/sh
# usage: tools/run_seeded.sh [tier] [ids...]  — runs every seeded change against its property's check
tier="${1:-quick}"; shift
cd "$(cd "$(dirname "$0")/.." && pwd)"
ids="$@"; [ -z "$ids" ] && ids=$(ls seeded)
for id in $ids; do
  for m in seeded/$id/*/; do
    [ -f "$m/patch.diff" ] || continue
    r=$(tools/selftest.sh $id $m/patch.diff $tier 2>&1 | grep -aE "^(CAUGHT|MISSED|patch does not apply)" | tail -1)
    sig=$(ls replays/$id 2>/dev/null | head -3 | tr '\n' ' ')
    echo "$id $(basename $m) $tier: $r  [$sig]"
    rm -rf replays/$id
  done
done
