#!/bin/sh
# usage: tools/verify_seed.sh <dir with patch.diff demo.rs> <name>
# Confirms a seeded change in a scratch worktree of /repo (outside /repo and /verif):
# demo passes without the patch; with the patch: builds (all features), pinned tests pass,
# demo fails. Prints one summary line. Removes the worktree and its build output.
src="$1"; name="$2"
wt=/tmp/seedv/$name
mkdir -p /tmp/seedv
git -C /repo worktree add --detach "$wt" HEAD >/dev/null 2>&1 || { echo "cannot create worktree"; exit 3; }
export CARGO_TARGET_DIR=${SEEDV_TARGET:-/tmp/seedv/target}   # shared across verifications, removed by the caller at the end
cd "$wt"
cp "$src/demo.rs" tests/demo_seed.rs
clean=$(cargo test --offline --all-features --test demo_seed 2>&1 | grep -E "^test result" | tail -1)
rm tests/demo_seed.rs
if ! git apply "$src/patch.diff"; then echo "$name: PATCH DOES NOT APPLY"; cd /; git -C /repo worktree remove --force "$wt"; exit 3; fi
build=$(cargo build --offline --all-features 2>&1 | tail -1)
pinned=$(cargo test --workspace --no-fail-fast --offline 2>&1 | grep -E "^test result" | head -1)
lib=$(cargo test --offline --all-features --lib 2>&1 | grep -E "^test result" | tail -1)
cp "$src/demo.rs" tests/demo_seed.rs
patched=$(cargo test --offline --all-features --test demo_seed 2>&1 | grep -E "^test result" | tail -1)
cd /
git -C /repo worktree remove --force "$wt"
echo "$name | clean demo: $clean | build: $build | pinned: $pinned | lib: $lib | patched demo: $patched"
