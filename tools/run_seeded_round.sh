#!/bin/sh
# usage: tools/run_seeded_round.sh <tier> <mN> [<mN>...] — runs the named seeded changes of every property
tier="$1"; shift
root="$(cd "$(dirname "$0")/.." && pwd)"; cd "$root"
for id in $(ls seeded); do
  for m in "$@"; do
    d=seeded/$id/$m
    [ -f "$d/patch.diff" ] || continue
    rm -rf replays/$id
    r=$(tools/selftest.sh $id $d/patch.diff $tier 2>&1 | grep -aE "^(CAUGHT|MISSED|patch does not apply|repo dirty)" | tail -1)
    first=$(ls replays/$id 2>/dev/null | head -2 | tr '\n' ' ')
    echo "seeded $id $m: $r [$first]"
  done
done
