#!/bin/sh
# usage: tools/run_all_mutants.sh [tier]   — every selftest mutant and every seeded change against its property
tier="${1:-quick}"
root="$(cd "$(dirname "$0")/.." && pwd)"
cd "$root"
for p in selftest/mutants/C*.patch; do
  id=$(basename "$p" | cut -c1-3)
  r=$("$root/tools/selftest.sh" "$id" "$p" "$tier" 2>&1 | grep -aE "^(CAUGHT|MISSED|patch does not apply|repo dirty)" | tail -1)
  first=$(ls replays/$id 2>/dev/null | head -1)
  echo "selftest $id $(basename $p .patch): $r [$first]"
  rm -rf replays/$id
done
for d in seeded/*/*/; do
  id=$(echo "$d" | cut -d/ -f2); m=$(echo "$d" | cut -d/ -f3)
  r=$("$root/tools/selftest.sh" "$id" "$d/patch.diff" "$tier" 2>&1 | grep -aE "^(CAUGHT|MISSED|patch does not apply|repo dirty)" | tail -1)
  first=$(ls replays/$id 2>/dev/null | head -1)
  echo "seeded $id $m: $r [$first]"
  rm -rf replays/$id
done
