#!/usr/bin/env python3
"""usage: tools/matrix_to_md.py <run_all_mutants log> — prints markdown tables for DESIGN.md §12.6"""
import json, os, re, sys
rows = {"selftest": [], "seeded": []}
for l in open(sys.argv[1]):
    m = re.match(r"(selftest|seeded) (C\d+) (\S+): (CAUGHT|MISSED|patch does not apply|repo dirty)[^\[]*\[(.*)\]", l)
    if not m:
        continue
    kind, pid, name, res, first = m.groups()
    sig = re.sub(r"-\d+\.json$", "", first).replace(pid + "_", "", 1)
    rows[kind].append((pid, name.rstrip(":"), res, sig))
print("| property | seeded change (needs) | quick | first signature reported |")
print("|---|---|---|---|")
for pid, name, res, sig in rows["seeded"]:
    meta = "/verif/seeded/%s/%s/meta.json" % (pid, name)
    what = ""
    if os.path.exists(meta):
        j = json.load(open(meta))
        what = (j.get("needs_to_manifest") or j.get("breaks") or "")
        what = re.sub(r"\s+", " ", what)[:170]
    print("| %s | %s: %s | %s | `%s` |" % (pid, name, what.replace("|", "/"), res.lower(), sig))
print()
print("| property | selftest mutant | quick | first signature reported |")
print("|---|---|---|---|")
for pid, name, res, sig in rows["selftest"]:
    print("| %s | %s | %s | `%s` |" % (pid, name, res.lower(), sig))
