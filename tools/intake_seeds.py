#!/usr/bin/env python3
"""usage: tools/intake_seeds.py C17-m1 C17-m2 ...
Confirms each independently written seeded change (tools/verify_seed.sh) and, when confirmed,
stores it as /verif/seeded/<id>/<mN>/{patch.diff,demo.rs,meta.json}."""
import json, os, shutil, subprocess, sys
for name in sys.argv[1:]:
    src = (os.environ.get("SEED_OUT", "/tmp/seed/out") + "/") + name
    pid, m = name.split("-")
    r = subprocess.run(["/verif/tools/verify_seed.sh", src, name], capture_output=True, text=True)
    line = [l for l in r.stdout.splitlines() if l.startswith(name)]
    line = line[-1] if line else (r.stdout + r.stderr)[-400:]
    ok = ("clean demo: test result: ok" in line and "pinned: test result: ok. 35 passed" in line
          and "patched demo: test result: FAILED" in line and " 224 passed; 0 failed" in line)
    print(name, "CONFIRMED" if ok else "NOT CONFIRMED", "|", line[:60] if ok else line)
    if not ok:
        continue
    dst = "/verif/seeded/%s/%s" % (pid, m)
    os.makedirs(dst, exist_ok=True)
    shutil.copy(src + "/patch.diff", dst + "/patch.diff")
    shutil.copy(src + "/demo.rs", dst + "/demo.rs")
    meta = json.load(open(src + "/meta.json"))
    json.dump({
        "property": pid,
        "breaks": meta.get("summary"),
        "needs_to_manifest": meta.get("needs_to_manifest"),
        "author": "independent sub-agent given only the property text and a scratch worktree",
        "confirmed_by_me": {
            "how": "tools/verify_seed.sh in a scratch worktree of /repo HEAD: demo without patch; then with patch: cargo build --all-features, pinned suite, all-features lib tests, demo",
            "result": line,
        },
        "original_meta": meta,
    }, open(dst + "/meta.json", "w"), indent=1)
