# Per-property metadata: stage plans, evidence rules, manifest texts.
# Read by ./check (driver) and tools/gen_manifest.py.

# stage plan entries: (stage, shards)
# watchdog seconds are generous wall-clock limits whose firing is INCONCLUSIVE.

META = {}


def prop(pid, **kw):
    META[pid] = kw



import glob, os
for _f in sorted(glob.glob(os.path.join(os.path.dirname(os.path.abspath(__file__)), "meta.d", "C*.py"))):
    exec(compile(open(_f).read(), _f, "exec"))

NOT_APPLICABLE = {}

HOOK_COMMITS = [
    "6b01e02 verif hook H1: chain invariant observation log behind feature verif-hooks",
    "4be55d2 verif hook H2: expose configured RRDP size limits behind feature verif-hooks",
]
