#!/bin/sh
# usage: tools/matrix_parallel.sh <workers> <outfile> [<items file: lines "selftest <patch>" / "seeded <dir>/patch.diff">]
# Runs every selftest mutant and every seeded change against its property's quick check,
# spread over <workers> private workspace copies (each with its own worktree of /repo and its
# own build directories), so that /repo itself is never modified. Removes the workspaces afterwards.
n="${1:-4}"; out="${2:-/tmp/matrix.log}"
cd /verif
if [ -n "$3" ]; then cp "$3" /tmp/matrix.items; else
ls selftest/mutants/C*.patch | sed 's#^#selftest #' > /tmp/matrix.items
for d in seeded/*/*/; do echo "seeded $d/patch.diff"; done >> /tmp/matrix.items
fi
total=$(wc -l < /tmp/matrix.items)
i=0
while [ $i -lt $n ]; do
  ws=mx$i
  sh tools/mkworkspace.sh $ws >/dev/null
  awk -v n=$n -v i=$i 'NR % n == i' /tmp/matrix.items > /tmp/wk/$ws/items
  (
    cd /tmp/wk/$ws/verif
    # mkworkspace.sh has already seeded .build with the dependency artefacts built for /verif
    ./setup.sh > /tmp/wk/$ws/setup.log 2>&1
    while read kind p; do
      p=$(echo "$p" | sed 's#//#/#')
      if [ "$kind" = selftest ]; then id=$(basename "$p" | cut -c1-3); name=$(basename "$p" .patch); else id=$(echo "$p" | cut -d/ -f2); name=$(echo "$p" | cut -d/ -f3); fi
      rm -rf replays/$id
      r=$(tools/selftest.sh "$id" "$p" quick 2>&1 | grep -aE "^(CAUGHT|MISSED|patch does not apply|repo dirty)" | tail -1)
      first=$(ls replays/$id 2>/dev/null | head -1)
      echo "$kind $id $name: $r [$first]"
    done < /tmp/wk/$ws/items > /tmp/wk/$ws/matrix.log 2>&1
  ) &
  i=$((i+1))
done
wait
cat /tmp/wk/mx*/matrix.log | sort > "$out"
i=0
while [ $i -lt $n ]; do git -C /repo worktree remove --force /tmp/wk/mx$i/repo; rm -rf /tmp/wk/mx$i; i=$((i+1)); done
echo "matrix done: $(wc -l < $out) of $total"
